"""C14 extension: everything the vendor-opener model needs from the harness side.

  * `world_of`       out-of-band extraction of the observations (`World` of Spec/OpenerVendor.lean) of a path / file object:
                     os.path kind, base-name class, leading-bytes class, XML-ness, directory entries.  Nothing here comes from sarpy.
  * `probe_policy`   the reader-side switches of `Policy2` measured on the implementation with stand-in inputs (one tiny file each)
  * `build_nitf20`   hand-assembled NITF 2.0 files (file header, image / symbol / label / text / DES subheaders from sarpy's own 2.0
                     element classes; the running offsets are computed here) and their true DES offsets
  * `registered`     the real `is_a` functions, keyed like the model's `Vendor`
"""
import os
import struct
import xml.etree.ElementTree as ET

VENDORS = ['capella', 'csk', 'gff', 'iceye', 'nisar', 'palsar2', 'radarsat', 'sentinel', 'sicd', 'sio', 'tsx', 'final',
           'sidd', 'cphd', 'crsd', 'nitf', 'tiff']
FOREIGN = {'capella', 'csk', 'gff', 'iceye', 'nisar', 'palsar2', 'radarsat', 'sentinel', 'tsx', 'tiff'}
PALSAR_PREFIXES = ('IMG-', 'LED-', 'TRL-', 'VOL-')


def registered():
    """{vendor key: callable}"""
    import importlib
    out = {}
    for key, mod in [('capella', 'complex.capella'), ('csk', 'complex.csk'), ('gff', 'complex.gff'), ('iceye', 'complex.iceye'),
                     ('nisar', 'complex.nisar'), ('palsar2', 'complex.palsar2'), ('radarsat', 'complex.radarsat'),
                     ('sentinel', 'complex.sentinel'), ('sicd', 'complex.sicd'), ('sio', 'complex.sio'), ('tsx', 'complex.tsx'),
                     ('sidd', 'product.sidd'), ('cphd', 'phase_history.cphd'), ('crsd', 'received.crsd'), ('nitf', 'general.nitf'),
                     ('tiff', 'general.tiff')]:
        out[key] = importlib.import_module('sarpy.io.' + mod).is_a
    from sarpy.io.complex.other_nitf import final_attempt
    out['final'] = final_attempt
    return out


# ---------------------------------------------------------------------------------------------------------------
# observations

def probe_of(b):
    """tsx._is_level1_product's reading of the first 200 bytes: none | declOpen | level1"""
    check = b[:200]
    if check.startswith(b'<?xml'):
        e = check.find(b'?>')
        if e == -1:
            return 'declOpen'
        check = check[e + 2:].strip()
    else:
        check = check.strip()
    return 'level1' if check.startswith(b'<level1Product') else 'none'


def head_of(b, size):
    """-> (head class, big-endian mark)"""
    if len(b) >= 4 and b[:4] == b'\x89HDF':
        return 'hdf5', 0
    if b[:7] == b'GSATIMG':
        return 'gff', 0
    try:
        s = b[:2].decode('utf-8')
    except ValueError:
        return 'binary', 0
    if s in ('II', 'MM'):
        big = 1 if s == 'MM' else 0
        if size < 4:
            return 'tiffShort', big
        m = struct.unpack('>h' if big else '<h', b[2:4])[0]
        return {42: 'tiff42', 43: 'tiff43'}.get(m, 'tiffBad'), big
    return 'plain', 0


def parses_as_xml(path):
    try:
        ET.parse(path)
        return True
    except Exception:
        return False


def world_of(path, argkind):
    """-> 13 tokens: arg kind name len4 head big xml probe palsar dprod dman dxml h5py"""
    if not os.path.exists(path):
        kind = 'missing'
    elif os.path.isfile(path):
        kind = 'file'
    elif os.path.isdir(path):
        kind = 'dir'
    else:
        kind = 'special'
    base = os.path.basename(path)
    name = 'productXml' if base == 'product.xml' else 'manifestSafe' if base == 'manifest.safe' else \
        'xmlExt' if os.path.splitext(path)[1] == '.xml' else 'plain'
    len4, head, big, xml, probe = 0, 'plain', 0, 0, 'none'
    if kind == 'file':
        size = os.path.getsize(path)
        with open(path, 'rb') as f:
            b = f.read(200)
        len4 = 1 if size >= 4 else 0
        head, big = head_of(b, size)
        probe = probe_of(b)
        xml = 1 if parses_as_xml(path) else 0
    palsar, dprod, dman, dxml = 0, 0, 0, 'none'
    scan = os.path.dirname(os.path.abspath(path)) if kind == 'file' else path if kind == 'dir' else None
    if scan is not None:
        palsar = 1 if any(e.startswith(PALSAR_PREFIXES) for e in os.listdir(scan)) else 0
    if kind == 'dir':
        dprod = 1 if (os.path.exists(os.path.join(path, 'product.xml')) or os.path.exists(os.path.join(path, 'metadata', 'product.xml'))) else 0
        dman = 1 if os.path.exists(os.path.join(path, 'manifest.safe')) else 0
        probes = set()
        for e in os.listdir(path):
            q = os.path.join(path, e)
            if os.path.isfile(q) and os.path.splitext(q)[1] == '.xml':
                with open(q, 'rb') as f:
                    probes.add(probe_of(f.read(200)))
        dxml = 'declOpen' if 'declOpen' in probes else 'level1' if 'level1' in probes else 'none'
    try:
        import h5py  # noqa: F401
        h5 = 1
    except ImportError:
        h5 = 0
    return f'{argkind} {kind} {name} {len4} {head} {big} {xml} {probe} {palsar} {dprod} {dman} {dxml} {h5}'


# ---------------------------------------------------------------------------------------------------------------
# NITF 2.0 assembly

OTHER_XML = b'<?xml version="1.0" encoding="utf-8"?><Foo xmlns="urn:foo:1.0"><Bar>1</Bar></Foo>'
NON_XML = b'\x00\x01\x02 this is not xml <<< &'


IGEOLO = '000029N0000022W000020N0000026E000029S0000022E000020S0000026W'


def nitf20_image(kind):
    from sarpy.io.general.nitf_elements.image import ImageSegmentHeader0, ImageBands, ImageBand
    if kind in ('c', 'cn'):      # complex-like: SAR, real 32 bit, bands I / Q; `cn` = without geolocation (ICORDS 'N', no IGEOLO)
        geo = dict(ICORDS='G', IGEOLO=IGEOLO) if kind == 'c' else dict(ICORDS='N')
        h = ImageSegmentHeader0(IID='CPLX000001', NROWS=3, NCOLS=4, PVTYPE='R', IREP='NODISPLY', ICAT='SAR', ABPP=32, IC='NC', IMODE='P',
                                NPPBH=4, NPPBV=3, NBPP=32, NBPC=1, NBPR=1, **geo)
        h.Bands = ImageBands(values=[ImageBand(ISUBCAT='I'), ImageBand(ISUBCAT='Q')])
        return h.to_bytes(), bytes(3 * 4 * 8)
    if kind == 'o':      # not SAR
        h = ImageSegmentHeader0(IID='VIS0000001', NROWS=3, NCOLS=4, PVTYPE='INT', IREP='MONO', ICAT='VIS', ABPP=8, ICORDS='N', IC='NC', IMODE='B',
                                NPPBH=4, NPPBV=3, NBPP=8, NBPC=1, NBPR=1)
        h.Bands = ImageBands(values=[ImageBand(IREPBAND='M')])
        return h.to_bytes(), bytes(12)
    if kind.startswith('d'):   # SAR, 8 bit integer, SIDD-style name
        h = ImageSegmentHeader0(IID='SIDD%03d001' % (int(kind[1:]) + 1), NROWS=3, NCOLS=4, PVTYPE='INT', IREP='MONO', ICAT='SAR', ABPP=8, ICORDS='G', IGEOLO=IGEOLO,
                                IC='NC', IMODE='B', NPPBH=4, NPPBV=3, NBPP=8, NBPC=1, NBPR=1)
        h.Bands = ImageBands(values=[ImageBand(IREPBAND='M')])
        return h.to_bytes(), bytes(12)
    raise ValueError(kind)


def build_nitf20(path, images, nsym, nlab, ntext, des, bodies):
    """des = [(id key, body key)], bodies = {body key: bytes}.  Returns the true offsets of the DES subheaders."""
    import numpy
    from sarpy.io.general.nitf_elements.nitf_head import NITFHeader0
    from sarpy.io.general.nitf_elements.des import DataExtensionHeader0
    from sarpy.io.general.nitf_elements.symbol import SymbolSegmentHeader
    from sarpy.io.general.nitf_elements.label import LabelSegmentHeader
    from sarpy.io.general.nitf_elements.text import TextSegmentHeader0
    segs = {'i': [nitf20_image(k) for k in images]}
    sy = SymbolSegmentHeader(SY='SY', SID='S1', SNAME='x', ENCRYP='0', STYPE='B', NLIPS=1, NPIXPL=8, NWDTH=1, NBPP=1, SDLVL=1, SALVL=0,
                             SLOC='0000000000', SLOC2='0000000000', SCOLOR='N', SNUM='000000', SROT=0)
    segs['s'] = [(sy.to_bytes(), b'\x00') for _ in range(nsym)]
    la = LabelSegmentHeader(LID='L1', ENCRYP='0', LFS='1', LCW=0, LCH=0, LDLVL=2, LALVL=0, LLOC='0000000000', LTC=b'\x00\x00\x00', LBC=b'\x00\x00\x00')
    segs['l'] = [(la.to_bytes(), b'hello') for _ in range(nlab)]
    segs['t'] = [(TextSegmentHeader0().to_bytes(), b'some text') for _ in range(ntext)]
    tags = {'x': 'XML_DATA_CONTENT', 'os': 'SIDD_XML', 'oc': 'SICD_XML', 'ot': 'MY_OWN_DES'}
    segs['d'] = [(DataExtensionHeader0(DESTAG=tags[i], DESVER=1).to_bytes(), bodies[b]) for i, b in des]
    h = NITFHeader0(FHDR='NITF', FVER='02.00')
    for attr, k in [('ImageSegments', 'i'), ('SymbolSegments', 's'), ('LabelSegments', 'l'), ('TextSegments', 't'), ('DataExtensions', 'd')]:
        getattr(h, attr).subhead_sizes = numpy.array([len(a) for a, _ in segs[k]], dtype='int64')
        getattr(h, attr).item_sizes = numpy.array([len(b) for _, b in segs[k]], dtype='int64')
    hl = h.get_bytes_length()
    body = b''.join(a + b for k in 'isltd' for a, b in segs[k])
    h.HL, h.FL = hl, hl + len(body)
    with open(path, 'wb') as f:
        f.write(h.to_bytes() + body)
    cur = hl + sum(len(a) + len(b) for k in 'islt' for a, b in segs[k])
    offs = []
    for a, b in segs['d']:
        offs.append(cur)
        cur += len(a) + len(b)
    return offs


# ---------------------------------------------------------------------------------------------------------------
# switches measured on the implementation

def probe_policy(tmp, sidd_refuses_graphics):
    """-> (bits 'rg sk sr g1 g2 g3 g4' as a 7-character string, details dict)"""
    from sarpy.io.general.base import SarpyIOError
    info = {}

    def outcome(fn, *args):
        try:
            r = fn(*args)
            return 'none' if r is None else 'value'
        except SarpyIOError:
            return 'SarpyIOError'
        except Exception as e:
            return type(e).__name__
    d = os.path.join(tmp, 'probe_policy')
    os.makedirs(d, exist_ok=True)
    # sk: does NITFDetails locate the DES of a 2.0 file with a symbol segment where it is?
    p = os.path.join(d, 'sym.ntf')
    true_offs = build_nitf20(p, ['o'], 1, 1, 0, [('ot', 'nxml')], {'nxml': NON_XML})
    from sarpy.io.general.nitf import NITFDetails
    nd = NITFDetails(p)
    got = [int(x) for x in nd.des_subheader_offsets]
    info['nitf20_des_offsets'] = {'true': true_offs, 'NITFDetails': got}
    sk = 0 if got == true_offs else 1
    # sr: extract_sicd on a 2.0 image subheader
    from sarpy.io.complex.other_nitf import extract_sicd
    from sarpy.io.general.nitf_elements.image import ImageSegmentHeader0
    hb, _ = nitf20_image('c')
    o = outcome(extract_sicd, ImageSegmentHeader0.from_bytes(hb, 0), False)
    info['extract_sicd_on_2.0_subheader'] = o
    sr = 1 if o == 'AttributeError' else 0
    reg = registered()
    # g1: "II" alone
    q = os.path.join(d, 'ii.bin')
    with open(q, 'wb') as f:
        f.write(b'II')
    o = outcome(reg['capella'], q)
    info['capella_on_II'] = o
    g1 = 1 if o == 'IndexError' else 0
    # g2: a non-XML file called product.xml
    os.makedirs(os.path.join(d, 'rs'), exist_ok=True)
    q = os.path.join(d, 'rs', 'product.xml')
    with open(q, 'wb') as f:
        f.write(b'not xml at all')
    o = outcome(reg['radarsat'], q)
    info['radarsat_on_non_xml_product_xml'] = o
    g2 = 1 if o == 'ParseError' else 0
    # g3: dangling declaration in x.xml
    q = os.path.join(d, 'x.xml')
    with open(q, 'wb') as f:
        f.write(b'<?xml')
    o = outcome(reg['tsx'], q)
    info['tsx_on_dangling_declaration'] = o
    g3 = 1 if o == 'ValueError' else 0
    # g4: an existing path that is neither file nor directory
    o = outcome(reg['palsar2'], '/dev/null') if os.path.exists('/dev/null') else 'unavailable'
    info['palsar2_on_dev_null'] = o
    g4 = 1 if o == 'ValueError' else 0
    bits = f'{sidd_refuses_graphics}{sk}{sr}{g1}{g2}{g3}{g4}'
    return bits, info


def flags_from_tables(gen_path):
    """the four guard-defect flags as the regenerated tables show them (cross-check of the probes); None if not generated"""
    try:
        src = open(gen_path).read()
    except OSError:
        return None
    if 'def tab ' not in src:
        return None

    def block(v):
        i = src.index(f'  | .{v} =>')
        j = src.index('-- accepts by', i)
        return src[i:j]
    g1 = 1 if '.raise .index' in block('tiff') else 0
    g2 = 0 if '.parse]' in block('radarsat').split('\n')[-2] or '[.sarpyIO, .parse]' in block('radarsat') else 1
    g3 = 1 if 'probeDeclOpen' in block('tsx') else 0
    g4 = 1 if '(.not (.atom .isDir))), .raise .value' in block('palsar2') else 0
    return f'{g1}{g2}{g3}{g4}'
