"""Histories on ONE data segment object (follow-up SEG3 of the segment model): read-side requests of both kinds (C01) and the
written-sample accounting under write and write_raw (C07 / C19).

proof side : lean/SarpyModel/Spec/SegHist.lean (object state, raw view, accounting), Props/C01SegHist.lean (read_history_independent,
             the regenerated state inventory = the model's, memo soundness), Props/C07SegAcct.lean (account_check_iff, cplx_incr_double, the
             `_partial` statement for overlapping histories); namespace Sarpy.Props.SegHist
tie        : translate/gen_segstate.py regenerates, from the current data_segment.py, which method writes which `self` field and the
             expressions of the accounting sites (bridge theorems gen_mutations_eq, gen_read_side_writes, gen_acct_sites_eq), and the
             op-history correspondence below: the Lean object state machine (driver `seghist`) against real objects
search     : (reads) every request of a history is put to the one object AND to a freshly built object; the two must agree, both must
             agree with the model, and a numpy oracle judges the object on its own terms: a sub-read is the slice of the full read of
             the same kind, and the full formatted image is the documented orientation / format of the full raw image;
             (writes) every chunk of a partition of the object's raw cells goes through write or write_raw, in random order; after
             each chunk check_fully_written() must be true exactly when every raw cell has been written (cells are identified by a
             read-mode twin whose stored samples carry their own position)

API (called from c01.run / c07.run / c19.run):
    seg_hist.regen() ; seg_hist.targets_reads() / targets_writes() ; seg_hist.extra_reads() / extra_writes()
    seg_hist.run_reads(chk, tier)            -> {'fails', 'disagreements', 'broken', 'evaluations', 'stats'}
    seg_hist.run_writes(chk, tier, consumers) -> the same
    seg_hist.replay_case(case)               -> exit code
"""
import copy
import io
import logging
import os
import shutil
import tempfile

import numpy

from common import Driver, Infra, VERIF
import segtree
import segmodel

NS = 'Sarpy.Props.SegHist'
READ_MODULE = 'SarpyModel.Props.C01SegHist'
WRITE_MODULE = 'SarpyModel.Props.C07SegAcct'
REQUIRED_BRIDGE = ['gen_unsupported', 'gen_mutations_eq', 'gen_read_side_writes', 'gen_acct_sites_eq']
REQUIRED_READ = REQUIRED_BRIDGE + [
    'read_history_independent', 'read_history_fresh', 'read_history_independent_child', 'read_history_keeps_counter', 'stepR_state',
    'runR_state', 'answer_read_refines', 'answer_readRaw_refines', 'subset_raw_view', 'parentFmt_is_read_subscript',
    'memo_sound', 'memo_parent_indices_sound', 'memo_dim_key_unsound', 'memoStep_ok', 'memoRun_ok']
REQUIRED_WRITE = [
    'account_check_iff', 'account_incomplete_false', 'account_overlap_partial', 'overlap_masks_missing', 'overlap_complete_reports_false',
    'incr_eq_cover_plain', 'incr_eq_cover_subset_write', 'incr_eq_cover_subsetR_write', 'incr_eq_cover_subset_writeRaw',
    'cplx_incr_double', 'orient_incr_same', 'rawSub_size', 'cellsOf_length', 'length_eq_iff_covers', 'prodL_pick', 'gather_perm']


def regen():
    """regenerate lean/SarpyModel/Gen/SegState.lean from the current data_segment.py"""
    import gen_segstate
    return gen_segstate.generate(os.path.join(VERIF, 'lean', 'SarpyModel', 'Gen', 'SegState.lean'))


def targets_reads():
    return [READ_MODULE]


def targets_writes():
    return [WRITE_MODULE, READ_MODULE]


def extra_reads():
    return [(READ_MODULE, NS, REQUIRED_READ)]


def extra_writes():
    return [(WRITE_MODULE, NS, REQUIRED_WRITE), (READ_MODULE, NS, REQUIRED_BRIDGE)]


REFUSALS = (ValueError, KeyError)
K_SQUEEZED_RAW = 'subset-write-raw-squeezed-axis'

# ------------------------------------------------------------------------------------------------ objects


def _oriented_parent(rng):
    """a parent whose raw and formatted sides differ: reversed and / or transposed leaf, complex leaf, band / block aggregate"""
    r = rng.random()
    if r < 0.45:
        for _ in range(20):
            p = segtree.rand_leaf(rng, shape=segtree.rand_shape(rng, rng.choice([2, 2, 3]), 2, 7))
            if p.get('rev') or p.get('trans') is not None:
                return p
        return p
    if r < 0.7:
        return segtree.rand_complex_leaf(rng)
    if r < 0.85:
        return segtree.rand_bands(rng, 1)
    return segtree.rand_blocks(rng, 1)


def rand_read_object(rng):
    """mostly subsets (either basis, squeezed or not) of parents with an orientation / format of their own"""
    r = rng.random()
    if r < 0.65:
        parent = _oriented_parent(rng)
        basis = 'formatted' if rng.random() < 0.6 or parent.get('fmt') else 'raw'
        shape = segtree.full_shape_of(parent) if basis == 'formatted' else segtree.raw_shape_of(parent)
        d = [segtree.rand_norm_slice(rng, n, steps=(1, 1, 1, -1, 2)) for n in shape]
        return {'kind': 'subset', 'parent': parent, 'def': d, 'squeeze': rng.random() < 0.35, 'basis': basis}
    if r < 0.8:
        return _oriented_parent(rng)
    return segtree.rand_tree(rng, rng.choice([1, 2]))


READ_KINDS = ['read', 'getitem', 'read_raw', 'getitem_raw', 'pfmt', 'praw']


def rand_history(rng, spec, fshape, rshape, n):
    out = []
    kinds = READ_KINDS if spec['kind'] == 'subset' else READ_KINDS[:4]
    for _ in range(n):
        k = rng.choice(kinds)
        shape = fshape if k in ('read', 'getitem', 'pfmt') else rshape
        if not shape or any(x == 0 for x in shape):
            continue
        full = rng.random() < 0.3
        sub = [[0, x, 1] for x in shape] if full else segmodel.rand_sub(rng, shape)
        out.append([k, sub])
    return out


def _do(seg, kind, sub):
    """one request on a real object -> ('arr', ndarray) | ('sub', text) | ('refused', text)"""
    py = segmodel.py_sub(sub)
    try:
        if kind == 'read':
            return 'arr', numpy.array(seg.read(py, squeeze=False))
        if kind == 'getitem':
            return 'arr', numpy.array(seg[py])
        if kind == 'read_raw':
            return 'arr', numpy.array(seg.read_raw(py, squeeze=False))
        if kind == 'getitem_raw':
            return 'arr', numpy.array(seg[py + ('raw', )])
        if kind == 'pfmt':
            return 'sub', 'sub ' + segmodel.sub_token([[s.start, s.stop, s.step] for s in seg.get_parent_formatted_subscript(py)])
        if kind == 'praw':
            return 'sub', 'sub ' + segmodel.sub_token([[s.start, s.stop, s.step] for s in seg.get_parent_raw_subscript(py)])
    except REFUSALS as e:
        return 'refused', f'{type(e).__name__}: {e}'
    raise ValueError(kind)


def _same(a, b, approx):
    if a[0] != b[0]:
        return False
    if a[0] == 'arr':
        return segtree.arrays_equal(a[1], b[1], approx)
    if a[0] == 'sub':
        return a[1] == b[1]
    return True


def _brief(x):
    if x[0] == 'arr':
        return segmodel.show_any(x[1])[:160]
    return f'{x[0]} {x[1]}'[:160]


def _model_kind(kind):
    return {'read': 'read', 'getitem': 'read', 'read_raw': 'readraw', 'getitem_raw': 'readraw', 'pfmt': 'pfmt', 'praw': 'praw'}[kind]


def _raw_in_model(spec):
    """the model has a raw view of the object (Spec.Seg.rawView): not for a subset of a subset"""
    return not (spec['kind'] == 'subset' and spec['parent']['kind'] == 'subset')


def _parent_format(spec, raw_arr):
    """documented transform of the parent applied to an (unsqueezed) raw array of a subset: reverse, transpose, format"""
    ps = spec['parent']
    prev = tuple(ps['rev']) if ps.get('rev') else None
    ptrans = tuple(ps['trans']) if ps.get('trans') is not None else None
    return segtree.fmt_shape_dtype(ps, segtree.orient(raw_arr, prev, ptrans))[3]


def check_read_history(spec, hist, tmpdir, model_answers=None, valctx=None):
    """run the history on ONE object; every request also on a fresh object.  -> (fails, disagreements, stats)"""
    fails, dis = [], []
    stats = {'requests': 0, 'refused': 0}
    approx = segtree.has_polar(spec)
    case = {'kind': 'seghist-read', 'tree': spec, 'ops': hist}

    def build():
        b = segtree.Builder('r', tmpdir)
        seg, orc = b.build(spec)
        return b, seg, orc
    try:
        b1, one, _ = build()
    except Exception:
        return fails, dis, {'requests': 0, 'refused': 0, 'construct_refused': 1}
    builders = [b1]
    try:
        # the object on its own terms, asked on fresh objects: sub-reads are slices of the full read of the same kind, and the full
        # formatted image is the documented transform of the full raw image
        bf, fresh_full, _ = build()
        builders.append(bf)
        full_f = _do(fresh_full, 'read', [[0, n, 1] for n in fresh_full.formatted_shape])
        bf2, fresh_raw, _ = build()
        builders.append(bf2)
        full_r = _do(fresh_raw, 'read_raw', [[0, n, 1] for n in fresh_raw.raw_shape])
        if full_f[0] == 'arr' and full_r[0] == 'arr' and spec['kind'] == 'subset' and not spec.get('squeeze', True) \
                and spec['parent']['kind'] != 'subset':
            try:
                want = _parent_format(spec, full_r[1])
                if not segtree.arrays_equal(full_f[1], want, approx):
                    fails.append(dict(case, step=None, msg='fresh object: the full formatted image is not the documented orientation / format '
                                                           'transform of the full raw image'))
            except Exception:
                pass
        for step, (kind, sub) in enumerate(hist):
            stats['requests'] += 1
            got = _do(one, kind, sub)
            bfr, fr, _ = build()
            builders.append(bfr)
            ref = _do(fr, kind, sub)
            stats['refused'] += ref[0] == 'refused'
            if not _same(got, ref, approx):
                fails.append(dict(case, step=step, msg=f'request {step} ({kind} {segmodel.sub_token(sub)}) after {step} earlier requests on the same '
                                                       f'object answers {_brief(got)}; a fresh object answers {_brief(ref)}'))
                break
            # numpy oracle on the history object: slice of the full read of the same kind
            if got[0] == 'arr' and kind in ('read', 'getitem', 'read_raw', 'getitem_raw'):
                full = full_f if kind in ('read', 'getitem') else full_r
                if full[0] == 'arr':
                    want = full[1][segmodel.py_sub(sub)]
                    if kind.startswith('getitem'):
                        want = numpy.squeeze(want)
                    if not segtree.arrays_equal(got[1], want, approx):
                        fails.append(dict(case, step=step, msg=f'request {step} ({kind} {segmodel.sub_token(sub)}) on an object with {step} earlier '
                                                               f'requests is not the slice of the full {"raw" if "raw" in kind else "formatted"} image'))
                        break
            # the Lean object state machine
            if model_answers is not None and (kind in ('read', 'getitem', 'pfmt') or _raw_in_model(spec)):
                m = model_answers[step]
                ok = True
                if m == 'refused' or got[0] == 'refused':
                    ok = (m == 'refused') == (got[0] == 'refused')
                elif got[0] == 'sub':
                    ok = m == got[1]
                else:
                    arr = got[1]
                    if kind.startswith('getitem'):
                        # the model answers unsqueezed; compare the elements in order and the squeezed shape
                        shp = tuple(int(x) for x in m.split(' |')[0].split(',')) if m.split(' |')[0].strip() != '-' else ()
                        ok = tuple(x for x in shp if x != 1) == arr.shape
                        arr = arr.reshape(shp) if ok else arr
                    if ok:
                        if valctx is None:
                            ok = segmodel.show(arr) == m
                        else:
                            leaves, table, scale, apx = valctx
                            want = segmodel.evaluate(m, leaves, table, scale)
                            ok = segtree.arrays_equal(numpy.asarray(arr), want.astype(arr.dtype) if not apx else want, apx)
                if not ok:
                    dis.append({'tree': spec, 'ops': hist, 'step': step, 'model': m[:200], 'impl': _brief(got), 'tie': 'object model (read history)'})
                    break
    finally:
        for b in builders:
            b.cleanup()
    return fails, dis, stats


def run_reads(chk, tier):
    rng = chk.rng
    n = 60 if tier == 'quick' else 900
    fails, dis, broken = [], [], []
    stats = {'objects': 0, 'requests': 0, 'refused': 0, 'with_model': 0, 'classes': set()}
    jobs = []
    drv = Driver()
    for _ in range(n):
        spec = rand_read_object(rng)
        try:
            fshape = segtree.full_shape_of(spec)
        except Exception:
            continue
        if not fshape or any(x == 0 for x in fshape):
            continue
        spec2, toks = spec, None
        try:
            toks, spec2, _ = segmodel.encode(spec)
        except segmodel.Unsupported:
            pass
        jobs.append({'spec': spec2, 'toks': toks, 'fshape': fshape})
    tmpdir = tempfile.mkdtemp(prefix='seghist_', dir=os.environ.get('VERIF_SCRATCH', '/var/tmp'))
    try:
        # raw shapes come from the objects themselves
        for job in jobs:
            b = segtree.Builder('r', tmpdir)
            try:
                seg, _ = b.build(job['spec'])
                job['rshape'] = list(seg.raw_shape)
            except Exception:
                job['rshape'] = None
            finally:
                b.cleanup()
            if job['rshape'] is None:
                continue
            job['hist'] = rand_history(rng, job['spec'], job['fshape'], job['rshape'], rng.randint(4, 9))
            if job['toks'] is not None and job['hist']:
                line = 'seghist hist ' + ' '.join(job['toks']) + f" {len(job['hist'])} " + \
                    ' '.join(f'{_model_kind(k)} {segmodel.sub_token(s)}' for k, s in job['hist'])
                job['q'] = drv.ask(line)
        try:
            ans = drv.run()
        except Infra as e:
            broken.append('object model driver does not build/run: ' + str(e)[:300])
            ans = None
        for job in jobs:
            if job.get('rshape') is None or not job.get('hist'):
                continue
            spec = job['spec']
            model = None
            valctx = None
            if ans is not None and 'q' in job:
                model = ans[job['q']].split(' ;; ')
                if len(model) != len(job['hist']):
                    raise Infra(f"object model answered {len(model)} parts for {len(job['hist'])} requests: {ans[job['q']][:200]}")
                stats['with_model'] += 1
                if segmodel.needs_values(spec):
                    table, scale = segmodel._fmt_params(spec)
                    valctx = ([segtree.Builder('r').leaf_array(l) for l in segmodel.leaf_specs(spec)], table, scale, segtree.has_polar(spec))
            f, d, st = check_read_history(spec, job['hist'], tmpdir, model, valctx)
            fails += f
            dis += d
            stats['objects'] += 1
            stats['requests'] += st['requests']
            stats['refused'] += st['refused']
            stats['classes'].add(segtree.tree_class(spec) + '|' + ''.join(sorted({k[0] + k[-1] for k, _ in job['hist']})))
    finally:
        shutil.rmtree(tmpdir, ignore_errors=True)
    stats['classes'] = len(stats['classes'])
    return {'fails': fails, 'disagreements': dis, 'broken': broken, 'evaluations': stats['requests'], 'stats': stats}


# ------------------------------------------------------------------------------------------------ written-sample accounting

def _w_leaf(rng, shape=None, fmt=None):
    """writable leaf (array / memmap) with a random orientation; `fmt`: None | 'c' (complex, band axis collapsed) | 'k' (kept)"""
    if fmt is None:
        return segtree.rand_leaf(rng, shape=shape, kinds=('array', 'array', 'memmap'))
    for _ in range(50):
        spec = segtree.rand_complex_leaf(rng)
        if spec['fmt']['collapsed'] == (fmt == 'c') and spec['fmt']['order'] in ('IQ', 'QI'):
            if spec['kind'] == 'fileread':
                spec['kind'] = 'array'
                spec.pop('offset', None)
            return spec
    return spec


def rand_write_object(rng):
    r = rng.random()
    fmt = rng.choice([None, 'c', 'c', 'k'])
    if r < 0.55:
        parent = _w_leaf(rng, fmt=fmt)
        basis = 'formatted' if parent.get('fmt') or rng.random() < 0.6 else 'raw'
        shape = segtree.full_shape_of(parent) if basis == 'formatted' else segtree.raw_shape_of(parent)
        steps = (1, 1, 1, -1, 2)
        d = [segtree.rand_norm_slice(rng, n, steps=steps) for n in shape]
        if parent.get('fmt') and not parent['fmt']['collapsed']:
            bd = parent['fmt']['band_dim']
            d[bd] = [d[bd][0], d[bd][1], 1] if d[bd][2] == 1 else [0, shape[bd], 1]
        return {'kind': 'subset', 'parent': parent, 'def': d, 'squeeze': rng.random() < 0.3, 'basis': basis}
    if r < 0.75:
        return _w_leaf(rng, fmt=fmt or 'c')
    if r < 0.9:
        # band aggregate of complex leaves (every child counts its own raw samples)
        nb = rng.randint(2, 3)
        first = _w_leaf(rng, fmt='c')
        children = [first] + [copy.deepcopy(first) for _ in range(nb - 1)]
        fs = segtree.full_shape_of(first)
        return {'kind': 'bands', 'children': children, 'band_dim': rng.randint(0, len(fs)), 'rev': None, 'trans': None}
    # a row of complex blocks
    first = _w_leaf(rng, fmt='c')
    fs = segtree.full_shape_of(first)
    if len(fs) != 2:
        return first
    k = rng.randint(2, 3)
    children = [first] + [copy.deepcopy(first) for _ in range(k - 1)]
    arr = [[[0, fs[0], 1], [i * fs[1], (i + 1) * fs[1], 1]] for i in range(k)]
    return {'kind': 'blocks', 'shape': [fs[0], k * fs[1]], 'children': children, 'arrangement': arr, 'fill': 0, 'rev': None, 'trans': None}


def _has_kept(spec):
    f = spec.get('fmt')
    if f and f['kind'] == 'complex' and not f['collapsed']:
        return True
    if 'parent' in spec and _has_kept(spec['parent']):
        return True
    return any(_has_kept(c) for c in spec.get('children', []))


def _box_of(positions, shape):
    """index tuples (as a (k, ndim) array) -> one ascending slice per axis if they form a full box of arithmetic progressions"""
    sub = []
    total = 1
    for ax in range(len(shape)):
        u = numpy.unique(positions[:, ax])
        if len(u) > 1:
            st = int(u[1] - u[0])
            if not numpy.all(numpy.diff(u) == st):
                return None
        else:
            st = 1
        sub.append([int(u[0]), int(u[-1]) + 1, st])
        total *= len(u)
    if total != len(numpy.unique(positions, axis=0)) or total != len(positions):
        return None
    return sub


def plan_write_history(rng, spec, tmpdir):
    """partition of the formatted index set; each chunk through write or (when its raw cells form a box) write_raw.
    -> list of ops ['w'|'r', subscript, number of distinct raw cells] in a random order, total number of raw cells"""
    import c07
    b = segtree.Builder('r', tmpdir)
    b0 = segtree.Builder('r', tmpdir)
    try:
        twin, _ = b.build(tag_spec(spec))
        twin0, _ = b0.build(tag_spec(spec))           # raw reads on an object of their own (no history across the two kinds)
        raw_tags = numpy.array(twin0.read_raw(None, squeeze=False))
        fshape = tuple(twin.formatted_shape)
        if raw_tags.size == 0 or len(numpy.unique(raw_tags)) != raw_tags.size:
            return None
        aggregate_of_complex = bool(numpy.iscomplexobj(raw_tags))      # band / block aggregate: its raw data are the children's pixels
        if aggregate_of_complex:
            pos_of = None
            total = 2 * int(raw_tags.size)
        else:
            pos_of = {int(v): idx for idx, v in numpy.ndenumerate(raw_tags)}
            total = int(raw_tags.size)
        chunks = c07.rand_partition(rng, fshape, allow_stride=not _has_kept(spec))
        ops = []
        for ch in chunks:
            got = numpy.array(twin.read(segmodel.py_sub(ch), squeeze=False))
            if numpy.iscomplexobj(got):
                cells = numpy.concatenate([got.real.reshape(-1), got.imag.reshape(-1)]).astype('int64')
            else:
                cells = got.reshape(-1).astype('int64')
            if pos_of is not None and any(int(c) not in pos_of for c in cells):
                return None
            ncell = len(set(int(c) for c in cells))
            how = 'w'
            sub = ch
            if rng.random() < 0.5:
                if pos_of is None:
                    # identity orientation at the aggregate: the raw subscript of a formatted chunk is the chunk itself
                    if not spec.get('rev') and spec.get('trans') is None and not spec.get('fmt'):
                        how = 'r'
                else:
                    box = _box_of(numpy.array([pos_of[int(c)] for c in cells]), raw_tags.shape)
                    if box is not None:
                        how, sub = 'r', box
            ops.append([how, sub, ncell])
        rng.shuffle(ops)
        return ops, total, [str(twin.formatted_dtype), str(twin.raw_dtype)]
    except REFUSALS:
        return None
    finally:
        b.cleanup()
        b0.cleanup()


def tag_spec(spec):
    """the same tree with stored samples that carry their own identity (leaf id * 10^6 + flat offset), int32 storage"""
    spec = copy.deepcopy(spec)
    counter = [0]

    def walk(s):
        if s['kind'] in ('array', 'memmap', 'fileread'):
            s['base'] = counter[0] * segmodel.BASE
            s['dtype'] = 'int32'
            counter[0] += 1
        if 'parent' in s:
            walk(s['parent'])
        for c in s.get('children', []):
            walk(c)
    walk(spec)
    return spec


def check_write_history(spec, ops, total, dtypes, tmpdir, model=None):
    fails, dis = [], []
    case = {'kind': 'seghist-write', 'tree': spec, 'ops': ops, 'total': total, 'dtypes': dtypes}
    b = segtree.Builder('w', tmpdir)
    try:
        try:
            seg, _ = b.build(tag_spec(spec))
        except Exception:
            return fails, dis, {'writes': 0, 'construct_refused': 1}
        if not seg.can_write_regular:
            return fails, dis, {'writes': 0}
        written = 0
        nw = 0
        for step, (how, sub, ncell) in enumerate(ops):
            counts = tuple(segmodel._count(n, d) for n, d in zip(seg.formatted_shape if how == 'w' else seg.raw_shape, sub))
            data = numpy.zeros(counts, dtype=seg.formatted_dtype if how == 'w' else seg.raw_dtype)
            if (step + len(ops) + total) % 3 == 0 and data.size:
                # a chunk the segment must REFUSE (wrong number of dimensions) offered first: a refused chunk is not a written chunk - the
                # accounting after the partition is the same as without the refused call
                # (for a complex formatted type also a real chunk of the right shape: that one is refused further down, by the parent)
                bads = [numpy.zeros(data.shape + (2, 3), dtype=data.dtype)]
                if how == 'w' and numpy.dtype(seg.formatted_dtype).kind == 'c':
                    bads.append(numpy.zeros(data.shape, dtype='float32'))
                refused_ok = True
                for bad in bads:
                    try:
                        (seg.write if how == 'w' else seg.write_raw)(bad, subscript=segmodel.py_sub(sub))
                        refused_ok = False
                    except Exception:
                        pass
                case = dict(case, refused_chunk_before_step=step)
                if not refused_ok:
                    fails.append(dict(case, step=step, msg=f'a chunk of shape {bad.shape} for the region {segmodel.sub_token(sub)} of shape {data.shape} was accepted'))
                    break
            try:
                if how == 'w':
                    seg.write(data, subscript=segmodel.py_sub(sub))
                else:
                    seg.write_raw(data, subscript=segmodel.py_sub(sub))
            except REFUSALS as e:
                f = dict(case, step=step, msg=f'chunk {step} ({"write" if how == "w" else "write_raw"} {segmodel.sub_token(sub)}) of a '
                                              f'partition refused: {type(e).__name__}: {e}')
                if how == 'r' and spec['kind'] == 'subset' and spec.get('squeeze', True) and 'does not match data.shape' in str(e) \
                        and len(seg.raw_shape) < len(seg.parent.raw_shape):
                    # SubsetSegment.write_raw hands the squeezed chunk to the parent without restoring the squeezed axes (write does)
                    f['key'] = K_SQUEEZED_RAW
                fails.append(f)
                break
            nw += 1
            written += ncell
            flag = bool(seg.check_fully_written(warn=False))
            want = written == total
            if flag != want:
                fails.append(dict(case, step=step, msg=f'after {step + 1} of {len(ops)} chunks ({written} of {total} raw samples written, each once; this '
                                                       f'chunk through {"write" if how == "w" else "write_raw"}) check_fully_written() = {flag}'))
                break
            if model is not None:
                incr, mw, mc = model['steps'][step]
                cnt = getattr(seg, '_pixels_written', None)
                exp = getattr(seg, '_expected_pixels_written', None)
                if (mc == 1) != flag or (cnt is not None and int(cnt) != mw) or (step == 0 and exp is not None and int(exp) != model['expected']):
                    dis.append({'tree': spec, 'ops': ops, 'step': step, 'model': f"expected {model['expected']} incr {incr} written {mw} check {mc}",
                                'impl': f'expected {exp} written {cnt} check {flag}', 'tie': 'object model (written-sample accounting)'})
                    break
        return fails, dis, {'writes': nw}
    finally:
        b.cleanup()


def _counter_owner(spec):
    """the root object owns a counter the model describes: a subset (not of a subset), or an array / memmap segment"""
    if spec['kind'] == 'subset':
        return spec['parent']['kind'] != 'subset'
    return spec['kind'] in ('array', 'memmap')


def run_writes(chk, tier, consumers=True):
    rng = chk.rng
    n = 50 if tier == 'quick' else 700
    fails, dis, broken = [], [], []
    stats = {'objects': 0, 'writes': 0, 'raw_chunks': 0, 'with_model': 0, 'complex': 0, 'classes': set()}
    tmpdir = tempfile.mkdtemp(prefix='seghistw_', dir=os.environ.get('VERIF_SCRATCH', '/var/tmp'))
    drv = Driver()
    jobs = []
    old_disable = logging.root.manager.disable
    logging.disable(logging.CRITICAL)       # sarpy logs an error whenever a counter passes its expectation
    try:
        for _ in range(n):
            spec = rand_write_object(rng)
            try:
                fshape = segtree.full_shape_of(spec)
            except Exception:
                continue
            if not fshape or any(x == 0 for x in fshape):
                continue
            plan = plan_write_history(rng, spec, tmpdir)
            if plan is None:
                continue
            ops, total, dtypes = plan
            job = {'spec': spec, 'ops': ops, 'total': total, 'dtypes': dtypes}
            if _counter_owner(spec):
                try:
                    toks, _, _ = segmodel.encode(spec)
                    job['q'] = drv.ask('seghist acct ' + ' '.join(toks) + f' {len(ops)} ' + ' '.join(f'{h} {segmodel.sub_token(s)}' for h, s, _ in ops))
                except segmodel.Unsupported:
                    pass
            jobs.append(job)
        try:
            ans = drv.run()
        except Infra as e:
            broken.append('object model driver does not build/run: ' + str(e)[:300])
            ans = None
        for job in jobs:
            model = None
            if ans is not None and 'q' in job and ans[job['q']] != 'refused':
                exp, _, body = ans[job['q']].partition(' | ')
                model = {'expected': int(exp), 'steps': [tuple(int(x) for x in t.split(':')) for t in body.split()]}
                stats['with_model'] += 1
            f, d, st = check_write_history(job['spec'], job['ops'], job['total'], job['dtypes'], tmpdir, model)
            fails += f
            dis += d
            stats['objects'] += 1
            stats['writes'] += st.get('writes', 0)
            stats['raw_chunks'] += sum(1 for h, _, _ in job['ops'] if h == 'r')
            stats['complex'] += bool(segmodel._fmts(job['spec']))
            stats['classes'].add(segtree.tree_class(job['spec']) + ('|mixed' if len({h for h, _, _ in job['ops']}) == 2 else ''))
        if consumers:
            cf, cst = consumer_histories(rng, tier, tmpdir)
            fails += cf
            stats['consumers'] = cst
    finally:
        logging.disable(old_disable)
        shutil.rmtree(tmpdir, ignore_errors=True)
    stats['classes'] = len(stats['classes'])
    return {'fails': fails, 'disagreements': dis, 'broken': broken,
            'evaluations': stats['writes'] + stats.get('consumers', {}).get('chunks', 0), 'stats': stats}


# ------------------------------------------------------------------------------------------------ consumers: SICDWriter with row limit / blocks

class _Errors(logging.Handler):
    def __init__(self):
        logging.Handler.__init__(self, level=logging.ERROR)
        self.msgs = []

    def emit(self, record):
        try:
            self.msgs.append(record.getMessage())
        except Exception:
            self.msgs.append(str(record.msg))


def run_consumer_case(case, tmpdir):
    """SICDWriter (RE16I_IM16I, raw (rows, cols, 2) int16) over a row-limited and / or blocked NITF layout, written through write_raw in row
    chunks: the image segment reports fully written exactly when every row has been handed over (never before), and after a complete
    history close() logs no 'written' error and the file is the one a whole-image write_raw produces (what close() says after an incomplete
    history depends on force-flushing and is not judged)"""
    import sargen
    from sarpy.io.complex.sicd import SICDWriter, SICDWritingDetails
    fails = []
    rows, cols = case['rows'], case['cols']
    raw = (numpy.arange(rows * cols * 2) % 30000).astype('int16').reshape(rows, cols, 2)
    meta = sargen.small_sicd(rows, cols, 'RE16I_IM16I')

    def make():
        det = SICDWritingDetails(meta.copy(), row_limit=case['limit'] or None)
        for m in det.image_managers:
            h = m.subheader
            if case['bv']:
                h.NPPBV = case['bv']
                h.NBPC = -(-h.NROWS // case['bv'])
            if case['bh']:
                h.NPPBH = case['bh']
                h.NBPR = -(-h.NCOLS // case['bh'])
        bio = io.BytesIO()
        return bio, SICDWriter(bio, sicd_writing_details=det, check_existence=False)
    old = logging.root.manager.disable
    logging.disable(logging.NOTSET)
    handler = _Errors()
    lg = logging.getLogger('sarpy')
    lg.addHandler(handler)
    old_prop, lg.propagate = lg.propagate, False
    try:
        bio0, w0 = make()
        w0.write_raw(raw, start_indices=(0, 0, 0))
        ok0 = bool(w0.data_segment[0].check_fully_written())
        w0.close()
        ref = bio0.getvalue()
        if not ok0 or handler.msgs:
            fails.append(dict(case, kind='seghist-consumer', msg=f'whole-image write_raw: fully written = {ok0}, errors logged: {handler.msgs[:2]}'))
            return fails
        handler.msgs.clear()
        bio, w = make()
        done = 0
        chunks = [case['chunks'][i] for i in case['order']]
        if case['drop']:
            chunks = chunks[:-1]
        for k, (a, b_) in enumerate(chunks):
            w.write_raw(raw[a:b_], start_indices=(a, 0, 0))
            done += b_ - a
            flag = bool(w.data_segment[0].check_fully_written())
            if flag != (done == rows):
                fails.append(dict(case, kind='seghist-consumer', msg=f'SICDWriter.write_raw: after rows {sorted(chunks[:k + 1])} of {rows} the data segment '
                                                                      f'reports fully written = {flag}'))
                return fails
        w.close()
        complained = [m for m in handler.msgs if 'written' in m.lower()]
        if not case['drop']:
            if complained:
                fails.append(dict(case, kind='seghist-consumer', msg=f'SICDWriter.close() after a complete write_raw history complains: {complained[0][:120]}'))
            elif bio.getvalue() != ref:
                fails.append(dict(case, kind='seghist-consumer', msg='complete write_raw history: the file differs from the one whole-image write_raw produces'))
    except Exception as e:
        fails.append(dict(case, kind='seghist-consumer', msg=f'SICDWriter write_raw history raised {type(e).__name__}: {e}'))
    finally:
        lg.removeHandler(handler)
        lg.propagate = old_prop
        logging.disable(old)
    return fails


def consumer_histories(rng, tier, tmpdir):
    import sargen
    n = 6 if tier == 'quick' else 60
    fails = []
    stats = {'cases': 0, 'chunks': 0, 'incomplete': 0}
    for _ in range(n):
        rows, cols = rng.randint(4, 9), rng.randint(3, 6)
        limit = rng.choice([0, 2, 3])
        bv, bh = rng.choice([(0, 0), (2, 0), (2, 2), (2, 3), (3, 2), (0, 2)])
        chunks = sargen.row_chunks(rng, rows, 4)
        order = list(range(len(chunks)))
        rng.shuffle(order)
        case = {'rows': rows, 'cols': cols, 'limit': limit, 'bv': bv, 'bh': bh, 'chunks': [list(c) for c in chunks], 'order': order,
                'drop': len(chunks) > 1 and rng.random() < 0.3}
        fails += run_consumer_case(case, tmpdir)
        stats['cases'] += 1
        stats['chunks'] += len(chunks)
        stats['incomplete'] += bool(case['drop'])
    return fails, stats


# ------------------------------------------------------------------------------------------------ replay

def replay_case(case):
    tmpdir = tempfile.mkdtemp(prefix='seghistr_', dir='/var/tmp')
    try:
        if case['kind'] == 'seghist-read':
            fails, _, _ = check_read_history(case['tree'], case['ops'], tmpdir)
        elif case['kind'] == 'seghist-write':
            fails, _, _ = check_write_history(case['tree'], case['ops'], case['total'], case['dtypes'], tmpdir)
        else:
            fails = run_consumer_case(case, tmpdir)
    finally:
        shutil.rmtree(tmpdir, ignore_errors=True)
    for f in fails:
        print(f['msg'])
    return 1 if fails else 0
