"""C01, completeness of the subscript gate (adds to harness/c01.py).

proof side : lean/SarpyModel/Props/C01Complete.lean - `verifySlice` / `verifyInt` / `verifySub` accept EXACTLY the
             declarative set `Spec.Supported*` (lean/SarpyModel/Spec/Supported.lean), and so does `Gen.verify_slice`.
tie        : driver op `supported` (lean/SarpyModel/Drivers/Supported.lean) evaluates, for one subscript,
                 <decide (Supported ..)>  <model accepts>  [<Gen (current python, translated) accepts>]
             and this module compares every column with (a) numpy itself, (b) `supported()` of harness/c01.py,
             (c) the real `verify_slice` / `verify_subscript` in /repo.
search     : (c) is also the direct oracle: a supported subscript that the real code refuses, or an empty /
             out-of-range one that it accepts, is reported as a failing input.

Use from c01.run():
    cc = c01complete.supported_oracle_cases(rng, tier)
    qi = c01complete.enqueue(drv, cc)          # before drv.run()
    res = c01complete.check(cc, qi, ans)       # after  ans = drv.run()
    disagreements += res['disagreements']; oracle_fail += res['oracle_fail']; evaluations += res['evaluations']
    chk.coverage['completeness'] = res['stats']
"""
import numpy


def o(v):
    return 'N' if v is None else str(int(v))


# ---------------------------------------------------------------------------- independent statements of "supported"

def np_supported(n, a, b, c):
    """numpy's own verdict (materialised for small axes, CPython's slice.indices for big ones)"""
    if c == 0:
        return False
    for v in (a, b):
        if v is not None and not (-n <= v <= n):
            return False
    if n <= 64:
        return len(numpy.arange(n)[slice(a, b, c)]) > 0
    return len(range(*slice(a, b, c).indices(n))) > 0


def np_supported_int(n, i):
    if n <= 64:
        try:
            numpy.arange(n)[i]
            return True
        except IndexError:
            return False
    return -n <= i < n


def place(shape, ent):
    """axis length for every entry of a tuple subscript, or None when the expansion itself is refused"""
    nd = len(shape)
    items = [e for e in ent if e != 'E']
    if ent.count('E') > 1 or len(items) > nd:
        return None
    out = []
    for i, e in enumerate(ent):
        if e == 'E':
            out.append(None)
        elif 'E' in ent and i > ent.index('E'):
            out.append(shape[nd - (len(ent) - i)])
        else:
            out.append(shape[i])
    return out


def np_supported_sub(shape, ent):
    ax = place(shape, ent)
    if ax is None or any(n < 1 for n in shape):
        return False
    for e, n in zip(ent, ax):
        if e == 'E' or e is None:
            continue
        if isinstance(e, int):
            if not np_supported_int(n, e):
                return False
        elif not np_supported(n, *e):
            return False
    return True


# ---------------------------------------------------------------------------- cases

def supported_oracle_cases(rng, tier):
    """('slice', n, (a, b, c)) | ('int', n, i) | ('sub', shape, entries).
    Exhaustive small scope n <= 6 (n = 0 included): bounds None or in [-n-2, n+2], step None, 0, +-1..3, +-n, +-(n+1);
    random larger axes; random N-d tuple subscripts (Ellipsis anywhere, too many entries, double Ellipsis)."""
    cases = []
    for n in range(0, 7):
        vals = [None] + list(range(-n - 2, n + 3))
        steps = sorted({1, 2, 3, -1, -2, -3, 0, n, -n, n + 1, -n - 1}) + [None]
        for a in vals:
            for b in vals:
                for c in steps:
                    cases.append(('slice', n, (a, b, c)))
        for i in range(-n - 3, n + 4):
            cases.append(('int', n, i))
    for _ in range(1500 if tier == 'quick' else 40000):
        n = rng.choice([7, 8, 9, 10, 13, 37, 64, 65, 100, 1000, 4096])
        edge = [None, 0, 1, -1, n - 1, n, n + 1, -n, -n - 1, -n + 1]

        def bound():
            return rng.choice(edge) if rng.random() < 0.6 else rng.randint(-n - 2, n + 2)
        c = rng.choice([None, 1, -1, 2, -2, 3, -3, 7, -7, n - 1, 1 - n, n, -n, n + 1, -n - 1, 0])
        cases.append(('slice', n, (bound(), bound(), c)))
        if rng.random() < 0.2:
            cases.append(('int', n, bound() or 0))
    # long axes: keep the step long so that the *declarative* side (which materialises numpy's index list) stays small
    for _ in range(200 if tier == 'quick' else 4000):
        n = rng.choice([99999, 10 ** 6, 2 ** 31 - 1, 2 ** 31, 2 ** 40 + 1])
        edge = [None, 0, 1, -1, n - 1, n, n + 1, -n, -n - 1, -n + 1, n // 2, -(n // 2)]
        k = rng.randint(max(1, n // 50), n + 1)
        c = rng.choice([k, -k])
        cases.append(('slice', n, (rng.choice(edge), rng.choice(edge), c)))
    for _ in range(400 if tier == 'quick' else 8000):
        nd = rng.randint(1, 4)
        shape = [rng.randint(1, 5) for _ in range(nd)]
        k = rng.randint(0, nd) if rng.random() < 0.9 else nd + 1
        ent = []
        for j in range(k):
            n = shape[min(j, nd - 1)]
            r = rng.random()
            if r < 0.15:
                ent.append(None)
            elif r < 0.35:
                ent.append(rng.randint(-n, n - 1) if rng.random() < 0.7 else rng.choice([-n - 1, n]))
            else:
                v = [None] + list(range(-n - 1, n + 2))
                for _t in range(6 if rng.random() < 0.8 else 1):
                    e = (rng.choice(v), rng.choice(v), rng.choice([None, 1, 1, 2, 3, -1, -1, -2, 0]))
                    if np_supported(n, *e):
                        break
                ent.append(e)
        for _e in range(rng.choice([0, 0, 1, 1, 1, 1, 1, 2])):
            ent.insert(rng.randint(0, len(ent)), 'E')
        cases.append(('sub', shape, ent))
    return cases


def line(case):
    k = case[0]
    if k == 'slice':
        return f'supported slice {case[1]} ' + ' '.join(o(x) for x in case[2])
    if k == 'int':
        return f'supported int {case[1]} {case[2]}'
    toks = []
    for e in case[2]:
        if e == 'E':
            toks.append('E')
        elif e is None:
            toks.append('N')
        elif isinstance(e, int):
            toks.append(f'i{e}')
        else:
            toks.append('s' + '/'.join(o(x) for x in e))
    return 'supported sub ' + ','.join(map(str, case[1])) + (' ' + ' '.join(toks) if toks else '')


def enqueue(drv, cases):
    return [drv.ask(line(c)) for c in cases]


# ---------------------------------------------------------------------------- the real code

def impl_accepts(case):
    """(accepted?, detail) of the real /repo code.  Only the refusals sarpy documents (ValueError, KeyError for the
    double Ellipsis) count as 'refused'; anything else propagates and is reported by the caller."""
    from sarpy.io.general.slice_parsing import verify_slice, verify_subscript
    k = case[0]
    try:
        if k == 'slice':
            r = verify_slice(slice(*case[2]), case[1])
        elif k == 'int':
            r = verify_slice(case[2], case[1])
        else:
            sub = tuple(Ellipsis if e == 'E' else (slice(*e) if isinstance(e, tuple) else e) for e in case[2])
            r = verify_subscript(sub, tuple(case[1]))
        return True, r
    except (ValueError, KeyError) as e:
        return False, type(e).__name__


def key_of(case, want):
    """class of a case for the distinct-nontrivial count"""
    if case[0] == 'slice':
        n, (a, b, c) = case[1], case[2]

        def cls(v):
            if v is None:
                return 'N'
            if v in (n, -n, 0, n - 1, -1):
                return {n: 'n', -n: '-n', 0: '0', n - 1: 'n-1', -1: '-1'}[v] if n > 1 else 'edge'
            return 'out' if not (-n <= v <= n) else ('+' if v > 0 else '-')
        return ('slice', min(n, 7), cls(a), cls(b), 'N' if c is None else (0 if c == 0 else (1 if c > 0 else -1)), want)
    if case[0] == 'int':
        return ('int', min(case[1], 7), want)
    return ('sub', len(case[1]), case[2].count('E'), len(case[2]), want)


def check(cases, idx, ans):
    """compare driver answers with numpy and with the real code. Returns dict(disagreements, oracle_fail, evaluations, stats)."""
    import c01
    disagreements = []
    oracle_fail = []
    spec_bugs = []
    stats = {'slice': {'supported': 0, 'unsupported': 0}, 'int': {'supported': 0, 'unsupported': 0},
             'sub': {'supported': 0, 'unsupported': 0}, 'impl_checked': 0}
    classes = set()
    for case, i in zip(cases, idx):
        cols = ans[i].split()
        k = case[0]
        if k == 'slice':
            want = np_supported(case[1], *case[2])
            if want != c01.supported(case[1], *case[2]):
                spec_bugs.append((case, 'np_supported vs c01.supported'))
        elif k == 'int':
            want = np_supported_int(case[1], case[2])
        else:
            want = np_supported_sub(case[1], case[2])
        stats[k]['supported' if want else 'unsupported'] += 1
        classes.add(key_of(case, want))
        if len(cols) not in (2, 3) or any(x not in ('0', '1') for x in cols):
            disagreements.append({'case': case, 'driver': ans[i], 'tie': 'driver op `supported` malformed answer'})
            continue
        decl, model = cols[0] == '1', cols[1] == '1'
        gen = (cols[2] == '1') if len(cols) == 3 else None
        if decl != want:
            # the Lean predicate is not numpy's notion: a specification bug, neither a proof nor a sarpy failure
            spec_bugs.append((case, f'Spec.Supported={decl}, numpy={want}'))
        if model != decl:
            disagreements.append({'case': case, 'declarative': decl, 'model': model,
                                  'tie': 'theorem verify_*_accepts_iff contradicted by evaluation (Spec.Supported vs Spec.verify*)'})
        # real code (shapes are >= 1 in the N-d family; n = 0 appears for single slices / ints and must be refused)
        acc, detail = impl_accepts(case)
        stats['impl_checked'] += 1
        if gen is not None and gen != acc:
            disagreements.append({'case': case, 'python': acc, 'gen': gen, 'tie': 'translator (python vs Gen), accept/refuse'})
        if acc != model:
            disagreements.append({'case': case, 'python': acc, 'model': model, 'tie': 'model (python vs Spec), accept/refuse'})
        if acc != want:
            if want:
                msg = f'supported subscript refused ({detail}): {line(case)[10:]}'
            else:
                msg = f'empty / out-of-range / zero-step subscript accepted as {detail}: {line(case)[10:]}'
            oracle_fail.append({'kind': 'complete', 'case': case, 'msg': msg})
    if spec_bugs:
        from common import Infra
        raise Infra(f'Spec.Supported disagrees with numpy (spec bug, not a violation): {spec_bugs[:3]}')
    stats['distinct_classes'] = len(classes)
    return {'disagreements': disagreements, 'oracle_fail': oracle_fail, 'evaluations': len(cases), 'stats': stats,
            'classes': classes}


def replay_case(case):
    """re-run the direct oracle on one stored (JSON) case; returns a message or None"""
    k = case[0]
    if k == 'slice':
        case = ('slice', case[1], tuple(case[2]))
        want = np_supported(case[1], *case[2])
    elif k == 'int':
        case = ('int', case[1], case[2])
        want = np_supported_int(case[1], case[2])
    else:
        ent = [tuple(e) if isinstance(e, list) else e for e in case[2]]
        case = ('sub', list(case[1]), ent)
        want = np_supported_sub(case[1], ent)
    acc, detail = impl_accepts(case)
    if acc == want:
        return None
    return (f'supported subscript refused ({detail})' if want else f'unsupported subscript accepted as {detail}') + ': ' + line(case)[10:]
