"""C20 - orthorectified products place each source pixel where the metadata says it is.

proof side : lean/SarpyModel/Props/C20.lean (over the reals; every plane, window, coordinate, product size, block size):
             PGProjection ortho <-> ECF maps are mutually inverse for orthonormal axes, the SIDD plane names the same ground
             point as the ortho grid, numpy.digitize on consecutive lines is floor+1, the true nearest line is within 1/2 and
             minimal, the code's line equals the nearest one iff the fractional part is >= 1/2 (negation witness x = 5),
             the proposed repair selects the nearest line, pad value outside the window, blocks assembled over any
             consecutive tiling (C03 segmentation_tiles) equal the whole product.
tie        : the same definitions (lean/SarpyModel/Spec/Ortho.lean) instantiated at Float (driver `ortho ...`) against
             PGProjection.ortho_to_ecf / plane_ecf_to_ortho, the plane written into the SIDD, numpy.digitize + _get_mask,
             NearestNeighborMethod.get_orthorectified_from_array on small arrays with a table-driven projection (the run
             reports whether /repo follows the `digitize` model or the `repaired` model), get_fetch_block_size and
             extract_blocks as the iterator calls them.
search     : direct oracle end to end on the implementation alone: small synthetic SICD whose pixel (r, c) has amplitude
             1 + r*K + c + 1/2 -> create_detected_image_sidd (NearestNeighborMethod, PGProjection, Linear remap that keeps
             the integer part) for SIDD versions 1-3, block sizes / split dimensions, sample spacings, plane frames ->
             open_product -> every product pixel is projected to the ground by the PRODUCT's measurement metadata
             (SIDDType.project_image_to_ground) and into the source by SICDType.project_ground_to_image; inside the source
             it must hold the remapped value of the NEAREST source pixel, outside the pad value; products must be
             identical across block sizes / split dimensions / versions; footprint == pixel array size.
"""
import json
import logging
import math
import os
import shutil
import struct
import tempfile
import traceback

import numpy

from common import Check, Driver, Infra, sarpy_guard
import sargen

REQUIRED = ['ortho_ecf_inverse', 'ecfToOrtho_orthoToEcf', 'orthoToEcf_ecfToOrtho', 'onPlane_iff_exists', 'product_plane_agrees',
            'ortho_step_is_spacing', 'digitize_grid', 'codeIndex_eq', 'codeIndex_none', 'codeIndex_lt', 'codeIndex_pos',
            'codePixel_eq', 'window_independent', 'nearest_index_bound', 'nearest_index_minimal', 'code_index_eq_nearest_iff',
            'code_index_eq_nearest_succ_iff', 'code_pixel_nearest_or_next', 'code_pixel_error',
            'code_index_off_by_one_at_integers', 'code_not_nearest', 'code_is_nearest_partial', 'fixed_index_is_nearest',
            'fill_outside', 'fill_outside_image', 'nearest_fill_outside', 'code_fill_of_nearest_fill', 'rim_example',
            'tiles_flatten', 'orthoBlocks_tiles', 'block_tiling_independent', 'block_sizes_agree']

KEY_NN = 'nearest-neighbour:digitize-not-nearest'
FIT_PX = 1.0          # a fitted (rational polynomial) projection helper is decided to within one source pixel
KEY_THIN = 'block-iteration:thin-block-pixel-bounds-refused'
TOL_M = 1e-6          # metres, model vs sarpy plane maps (rounding noise ~1e-9)
TOL_PX = 1e-7         # ortho pixels
ROUTE_PX = 1e-4       # two metadata routes (HAE projection / plane formula) must give the same source coordinate


def bits(x):
    return str(struct.unpack('>Q', struct.pack('>d', float(x)))[0])


def unbits(s):
    return struct.unpack('>d', struct.pack('>Q', int(s)))[0]


# ------------------------------------------------------------------ scenes and projections

class Scene:
    """a small SICD file whose pixel (r, c) has amplitude 1 + r*K + c + 0.5 (phase +-1, +-i)"""

    def __init__(self, cfg, tmp):
        from sarpy.io.complex.converter import open_complex
        self.cfg = dict(cfg)
        rows, cols, kind = cfg['rows'], cfg['cols'], cfg['kind']
        meta = sargen.small_sicd(rows, cols, kind=kind)
        if cfg.get('no_area'):
            meta.RadarCollection.Area = None
        self.K = 1000 if (rows * 1000 + cols + 2 < 65000 and cols <= 1000) else cols
        if cfg.get('K'):
            self.K = int(cfg['K'])       # a second code pitch, so that two scenes of one reader never share pixel values
        if (rows - 1) * self.K + cols + 1 > 65000 or (self.K == 1000 and cols > 499):
            raise Infra('scene too large for a 16 bit identity code')
        rr, cc = numpy.meshgrid(numpy.arange(rows), numpy.arange(cols), indexing='ij')
        self.code = (1 + rr * self.K + cc).astype('int64')
        amp = (self.code + 0.5).astype('float32')
        ph = numpy.array([1, -1, 1j, -1j], dtype='complex64')[(rr * 7 + cc * 3 + cfg.get('phase', 0)) % 4]
        self.data = (amp * ph).astype('complex64')
        self.amp = numpy.abs(self.data)
        self.name = 'src_%s_%d_%d_%d.nitf' % (kind, rows, cols, 1 if cfg.get('no_area') else 0)
        sargen.write_sicd(meta, self.data, 'path', tmp, name=self.name)
        self.path = os.path.join(tmp, self.name)
        self.reader = open_complex(self.path)
        self.sicd = self.reader.sicd_meta
        self.rows, self.cols = rows, cols
        ss = min(self.sicd.Grid.Row.SS, self.sicd.Grid.Col.SS)
        # PGProjection.ortho_to_pixel iterates to 1e-3 m: coordinates this close to a decision boundary are not decided
        self.eps = max(2.5e-3, 2e-3 / ss)

    def close(self):
        try:
            self.reader.close()
        except Exception:
            pass


class SceneView:
    """scene `sc` seen as image `index` of a reader over several scenes (AggregateComplexReader)"""

    def __init__(self, sc, reader, index, cfg):
        self.__dict__.update(sc.__dict__)
        self.reader = reader
        self.index = index
        self.cfg = cfg
        self.parts = []

    def close(self):
        for p in [self] + self.parts:
            try:
                p.reader.close()
            except Exception:
                pass


def two_image_view(cfg, tmp):
    """cfg: {'two_image': [scene cfg A, scene cfg B], 'index': k}: the view of image k of AggregateComplexReader([A, B])"""
    from sarpy.io.complex.aggregate import AggregateComplexReader
    parts = [Scene(c, tmp) for c in cfg['two_image']]
    agg = AggregateComplexReader([p.reader for p in parts])
    view = SceneView(parts[cfg['index']], agg, cfg['index'], cfg)
    view.parts = parts
    return view, parts


def make_proj(sc, pcfg):
    """pcfg: {'frame': 'default'|'rot', 'theta': deg, 'refpix': [a, b], 'spacing': [rs, cs]|None}"""
    from sarpy.processing.ortho_rectify import PGProjection
    from sarpy.geometry.geocoords import wgs_84_norm
    sp = pcfg.get('spacing') or [None, None]
    if pcfg.get('spacing_after') and sp[0] is not None:
        # the spacings are assigned AFTER construction (as kmz_product_creation does to coarsen the grid): same projection as passing them in
        ph = make_proj(sc, dict(pcfg, spacing=None, spacing_after=False))
        ph.row_spacing = sp[0]
        ph.col_spacing = sp[1]
        return ph
    if pcfg['frame'] == 'default':
        return PGProjection(sc.sicd, row_spacing=sp[0], col_spacing=sp[1])
    ref = sc.sicd.GeoData.SCP.ECF.get_array()
    n = wgs_84_norm(ref)
    r0 = sc.sicd.Grid.Row.UVectECF.get_array()
    r0 = r0 - n * n.dot(r0)
    r0 = r0 / numpy.linalg.norm(r0)
    c0 = numpy.cross(n, r0)
    th = math.radians(pcfg['theta'])
    rv = math.cos(th) * r0 + math.sin(th) * c0
    cv = numpy.cross(n, rv)
    return PGProjection(sc.sicd, reference_point=ref, reference_pixels=numpy.array(pcfg['refpix'], dtype='float64'),
                        normal_vector=n, row_vector=rv, col_vector=cv, row_spacing=sp[0], col_spacing=sp[1])


def plane_tokens(ph):
    v = list(ph.reference_point) + list(ph.reference_pixels) + list(ph.row_vector) + list(ph.col_vector) + [ph.row_spacing, ph.col_spacing]
    return ' '.join(bits(t) for t in v)


def make_remap(depth, sc):
    from sarpy.visualization.remap import Linear
    if depth == 16:
        return Linear(bit_depth=16, min_value=0, max_value=65535)
    return Linear(bit_depth=8, min_value=0, max_value=float(sc.amp.max()))


class _Rec:
    log = None


_FETCHERS = {}


def fetchers():
    if _FETCHERS:
        return _FETCHERS
    from sarpy.processing.ortho_rectify.base import FullResolutionFetcher

    class RecordingFetcher(FullResolutionFetcher):
        """unchanged behaviour; records what the iterator asks for"""
        __slots__ = ()

        def get_fetch_block_size(self, start_element, stop_element):
            out = FullResolutionFetcher.get_fetch_block_size(self, start_element, stop_element)
            if _Rec.log is not None:
                _Rec.log.append(('fbs', int(start_element), int(stop_element), self.block_size_in_bytes, out))
            return out

        @staticmethod
        def extract_blocks(the_range, index_block_size):
            out = FullResolutionFetcher.extract_blocks(the_range, index_block_size)
            if _Rec.log is not None:
                _Rec.log.append(('blocks', [int(t) for t in the_range], index_block_size, [[int(u) for u in b] for b in out[0]]))
            return out

    class SmallBlockFetcher(RecordingFetcher):
        """block_size (MB) is taken as given instead of being raised to 0.25 MB, so that images of a few thousand
        pixels are processed in several blocks; everything else is the library's code"""
        __slots__ = ()

        @property
        def block_size(self):
            return self._block_size

        @block_size.setter
        def block_size(self, value):
            self._block_size = None if value is None else float(value)

    _FETCHERS.update({'rec': RecordingFetcher, 'small': SmallBlockFetcher})
    return _FETCHERS


def create_product(sc, pcfg, version, bcfg, bounds, pad, depth, tmp, name='prod.nitf', oh_factory=None):
    """runs create_detected_image_sidd and reopens the product.  Exceptions propagate to the caller."""
    from sarpy.processing.ortho_rectify import NearestNeighborMethod
    from sarpy.processing.sidd import sidd_product_creation as spc
    from sarpy.io.product.converter import open_product
    if oh_factory is not None:
        oh = oh_factory()
        ph = oh.proj_helper
    else:
        ph = make_proj(sc, pcfg)
        oh = NearestNeighborMethod(sc.reader, index=getattr(sc, 'index', 0), proj_helper=ph, pad_value=pad)
    remap = make_remap(depth, sc)
    path = os.path.join(tmp, name)
    if os.path.exists(path):
        os.remove(path)
    _Rec.log = []
    saved = spc.FullResolutionFetcher
    if bcfg['mode'] != 'api':
        spc.FullResolutionFetcher = fetchers()[bcfg['mode']]
    try:
        spc.create_detected_image_sidd(oh, tmp, output_file=name, block_size=bcfg['block_size'], dimension=bcfg['dimension'],
                                       bounds=bounds, version=version, remap_function=remap)
    finally:
        spc.FullResolutionFetcher = saved
        log, _Rec.log = _Rec.log, None
    rd = open_product(path)
    try:
        metas = rd.sidd_meta
        sidd = metas[0] if isinstance(metas, (list, tuple)) else metas
        sizes = rd.get_data_size_as_tuple()
        img = numpy.array(rd[:, :])
        rtype = rd.reader_type
    finally:
        rd.close()
        os.remove(path)
    # the oracle maps source pixels through a FRESH remap with the declared global parameters: product creation must neither recompute
    # them from the processed region nor leave the caller's remap object modified
    state_after = (getattr(remap, 'min_value', None), getattr(remap, 'max_value', None))
    fresh = make_remap(depth, sc)
    return {'img': img, 'sidd': sidd, 'sizes': sizes, 'reader_type': rtype, 'log': log, 'ph': ph, 'oh': oh, 'remap': fresh,
            'remap_state': (state_after, (fresh.min_value, fresh.max_value))}


def sidd_plane(sidd):
    pp = sidd.Measurement.PlaneProjection
    return {'ref': pp.ReferencePoint.ECEF.get_array(), 'point': pp.ReferencePoint.Point.get_array(),
            'ss': pp.SampleSpacing.get_array(), 'row': pp.ProductPlane.RowUnitVector.get_array(),
            'col': pp.ProductPlane.ColUnitVector.get_array()}


def source_coords(sc, sidd, pts):
    """product pixel -> ground by the product's measurement metadata -> source pixel coordinates (two routes)"""
    g = sidd.project_image_to_ground(pts)
    pix, delta, _ = sc.sicd.project_ground_to_image(g, tolerance=1e-8, max_iterations=60)
    pl = sidd_plane(sidd)
    g2 = pl['ref'] + numpy.outer((pts[:, 0] - pl['point'][0]) * pl['ss'][0], pl['row']) + \
        numpy.outer((pts[:, 1] - pl['point'][1]) * pl['ss'][1], pl['col'])
    pix2, _, _ = sc.sicd.project_ground_to_image(g2, tolerance=1e-8, max_iterations=60)
    return g, pix, g2, pix2


def classify(sc, x, y):
    """per pixel: 0 = undecided (within eps of a decision boundary or not finite), 1 = inside (centre hull),
    2 = outside (no nearest pixel), 3 = rim (nearest pixel exists, coordinate beyond the outer pixel centres)"""
    eps = sc.eps
    fin = numpy.isfinite(x) & numpy.isfinite(y)
    x = numpy.where(fin, x, 0.0)
    y = numpy.where(fin, y, 0.0)
    nr = numpy.floor(x + 0.5).astype('int64')
    nc = numpy.floor(y + 0.5).astype('int64')
    band = numpy.zeros(x.shape, dtype=bool)
    for v, n in ((x, sc.rows), (y, sc.cols)):
        fr = v - numpy.floor(v)
        band |= numpy.abs(fr - 0.5) < eps                      # tie between two lines / edge of the outer half pixels
        for b in (0.0, float(n - 1)):
            band |= numpy.abs(v - b) < eps                     # edge of the centre hull
    hull = (x >= 0) & (x <= sc.rows - 1) & (y >= 0) & (y <= sc.cols - 1)
    outside = (nr < 0) | (nr >= sc.rows) | (nc < 0) | (nc >= sc.cols)
    cls = numpy.where(hull, 1, numpy.where(outside, 2, 3))
    cls = numpy.where(band | ~fin, 0, cls)
    return cls, nr, nc


def check_product(sc, prod, case, fail, stats, disagree):
    """the direct oracle on one product; returns the number of decided pixels"""
    img, sidd = prod['img'], prod['sidd']
    R, C = img.shape[:2]
    foot = (int(sidd.Measurement.PixelFootprint.Row), int(sidd.Measurement.PixelFootprint.Col))
    if not (foot == (R, C) and tuple(prod['sizes'][0]) == (R, C)):
        fail('footprint:size-mismatch', f'declared footprint {foot}, reader size {prod["sizes"]}, pixel array {img.shape}', case)
        return 0
    if prod['reader_type'] != 'SIDD':
        fail('open_product:not-sidd', f'reader_type {prod["reader_type"]!r}', case)
    mod = type(sidd).__module__
    if f'sidd{case["version"]}_elements' not in mod:
        fail('versions:wrong-structure-class', f'version {case["version"]} requested, reopened structure is {mod}', case)
    ii, jj = numpy.meshgrid(numpy.arange(R), numpy.arange(C), indexing='ij')
    pts = numpy.stack([ii.ravel(), jj.ravel()], axis=1).astype('float64')
    g, pix, g2, pix2 = source_coords(sc, sidd, pts)
    x, y = pix[:, 0], pix[:, 1]
    both = numpy.isfinite(pix).all(axis=1) & numpy.isfinite(pix2).all(axis=1)
    if both.any():
        d = float(numpy.abs(pix[both] - pix2[both]).max())
        stats['route_px_max'] = max(stats.get('route_px_max', 0.0), d)
        if d > ROUTE_PX:
            k = int(numpy.argmax(numpy.abs(pix - pix2).max(axis=1) * both))
            fail('metadata:hae-projection-vs-plane-formula', f'product pixel {pts[k].tolist()}: source coordinate {pix[k].tolist()} through '
                 f'project_image_to_ground, {pix2[k].tolist()} through the PlaneProjection fields', case)
    # tie: the code's own ortho -> source pixel map against the route through the product metadata
    ph = prod['ph']
    pl = sidd_plane(sidd)
    b0 = ph.reference_pixels[0] - pl['point'][0]
    b2 = ph.reference_pixels[1] - pl['point'][1]
    if abs(b0 - round(b0)) > 1e-6 or abs(b2 - round(b2)) > 1e-6:
        fail('metadata:reference-point-not-on-grid', f'ReferencePoint.Point {pl["point"].tolist()} vs reference pixels {ph.reference_pixels.tolist()}', case)
    mesh = numpy.stack([ii + int(round(b0)), jj + int(round(b2))], axis=2)
    pix3 = ph.ortho_to_pixel(mesh).reshape((-1, 2))
    ok3 = numpy.isfinite(pix3).all(axis=1) & both
    fitted = type(ph).__name__ != 'PGProjection'
    if fitted:
        # a fitted projection (rational polynomials) approximates the exact maps over the image it was fitted over and extrapolates beyond it:
        # the property is decided to within ONE source pixel for such a helper (FIT_PX), from the metadata alone
        hull3 = ok3 & (x >= 0) & (x <= sc.rows - 1) & (y >= 0) & (y <= sc.cols - 1)
        far = ok3 & ~hull3
        if far.any():
            stats['fitted_projection_extrapolation_px_max'] = max(stats.get('fitted_projection_extrapolation_px_max', 0.0), float(numpy.abs(pix3[far] - pix[far]).max()))
        if hull3.any():
            d3 = float(numpy.abs(pix3[hull3] - pix[hull3]).max())
            stats['fitted_projection_vs_metadata_px_max'] = max(stats.get('fitted_projection_vs_metadata_px_max', 0.0), d3)
            if d3 >= FIT_PX:
                disagree('ortho_to_pixel', f'{type(ph).__name__}.ortho_to_pixel differs from the route through the product metadata by {d3:.3e} px inside the source image '
                         f'(accepted for a fitted projection: {FIT_PX} px)', case)
        ok3 = ok3 & False
    if ok3.any():
        d3 = float(numpy.abs(pix3[ok3] - pix[ok3]).max())
        stats['code_vs_metadata_px_max'] = max(stats.get('code_vs_metadata_px_max', 0.0), d3)
        if d3 >= sc.eps:
            disagree('ortho_to_pixel', f'PGProjection.ortho_to_pixel differs from the route through the product metadata by {d3:.3e} px '
                     f'(undecided band {sc.eps:.3e})', case)
    cls, nr, nc = classify(sc, x, y)
    st_after, st_decl = prod.get('remap_state', (None, None))
    if st_after != st_decl:
        fail('remap:globals-modified', f'the global parameters of the caller\'s remap object were {st_decl} (min, max) and are {st_after} after create_detected_image_sidd', case)
    remapped = prod['remap'](sc.amp)
    fill = int(prod['remap'](numpy.array([[0.0 if case['pad'] is None else case['pad']]], dtype='float32'))[0, 0])
    v = img.reshape((R * C,)).astype('int64')
    nrc = numpy.clip(nr, 0, sc.rows - 1)
    ncc = numpy.clip(nc, 0, sc.cols - 1)
    want = remapped[nrc, ncc].astype('int64')
    if fitted:
        near_ok = numpy.zeros(v.shape, dtype=bool)
        for dr_ in (-1, 0, 1):
            for dc_ in (-1, 0, 1):
                near_ok |= v == remapped[numpy.clip(nr + dr_, 0, sc.rows - 1), numpy.clip(nc + dc_, 0, sc.cols - 1)].astype('int64')
        fin_ = numpy.isfinite(x) & numpy.isfinite(y)
        deep = fin_ & (x >= 1) & (x <= sc.rows - 2) & (y >= 1) & (y <= sc.cols - 2)
        far_out = ~fin_ | (x < -1.5) | (x > sc.rows + 0.5) | (y < -1.5) | (y > sc.cols + 0.5)
        stats['fitted_pixels_inside'] = stats.get('fitted_pixels_inside', 0) + int(deep.sum())
        stats['fitted_pixels_outside'] = stats.get('fitted_pixels_outside', 0) + int(far_out.sum())
        for nm_, sel_, key_ in (('more than one pixel inside the source hold no source pixel within one pixel of the nearest', deep & ~near_ok, 'resample:wrong-pixel'),
                                ('more than 1.5 pixels outside the source do not hold the fill value', far_out & (v != fill), 'resample:value-outside-source'),
                                ('at the edge of the source hold neither the fill value nor a source pixel within one pixel of the nearest', ~deep & ~far_out & ~near_ok & (v != fill),
                                 'resample:rim-wrong-pixel')):
            if sel_.any():
                k = int(numpy.nonzero(sel_)[0][0])
                info = {'product_pixel': [int(pts[k, 0]), int(pts[k, 1])], 'source_coordinate': [float(x[k]), float(y[k])], 'nearest_source_pixel': [int(nr[k]), int(nc[k])],
                        'expected_value': int(want[k]), 'product_value': int(v[k]), 'fill_value': fill}
                fail(key_, f'{int(sel_.sum())} product pixels {nm_} (fitted projection {type(ph).__name__}, decided to within {FIT_PX} px): e.g. {json.dumps(info)}', dict(case, pixel=info))
        return int((deep | far_out).sum())
    inside, outside, rim = cls == 1, cls == 2, cls == 3
    stats['pixels_inside'] = stats.get('pixels_inside', 0) + int(inside.sum())
    stats['pixels_outside'] = stats.get('pixels_outside', 0) + int(outside.sum())
    stats['pixels_rim'] = stats.get('pixels_rim', 0) + int(rim.sum())
    stats['pixels_undecided'] = stats.get('pixels_undecided', 0) + int((cls == 0).sum())
    stats['rim_fill'] = stats.get('rim_fill', 0) + int((rim & (v == fill)).sum())
    stats['rim_nearest'] = stats.get('rim_nearest', 0) + int((rim & (v == want) & (v != fill)).sum())

    def pixel_info(k):
        return {'product_pixel': [int(pts[k, 0]), int(pts[k, 1])], 'ground_ecf': [float(t) for t in g[k]],
                'source_coordinate': [float(x[k]), float(y[k])], 'nearest_source_pixel': [int(nr[k]), int(nc[k])],
                'expected_value': int(want[k]), 'product_value': int(v[k]), 'fill_value': fill}

    # inside: nearest value required
    bad = inside & (v != want)
    depth16 = case['depth'] == 16 and bool((remapped.astype('int64') == sc.code).all())
    if case['depth'] == 16 and not depth16:
        stats['remap_not_identity'] = stats.get('remap_not_identity', 0) + 1
    if depth16:
        dist = stats.setdefault('index_difference', {})
        ins = numpy.nonzero(inside)[0]
        vv = v[ins]
        isfill = (vv == fill) & (want[ins] != fill)
        gr = (vv - 1) // sc.K
        gc = (vv - 1) % sc.K
        okcode = (~isfill) & (gr >= 0) & (gr < sc.rows) & (gc >= 0) & (gc < sc.cols)
        dr = numpy.where(okcode, gr - nr[ins], 99)
        dc = numpy.where(okcode, gc - nc[ins], 99)
        for a, b, f in zip(dr.tolist(), dc.tolist(), isfill.tolist()):
            key = 'fill' if f else (f'{a:+d},{b:+d}' if a != 99 else 'other')
            dist[key] = dist.get(key, 0) + 1
    if bad.any():
        # does the product hold the pixel numpy.digitize selects (floor + 1 in each dimension)?
        # (the code's own coordinate differs from the oracle's by up to eps, which matters at integer coordinates)
        is_dig = numpy.zeros(bad.shape, dtype=bool)
        fr = fc = None
        for ex in (-sc.eps, sc.eps):
            for ey in (-sc.eps, sc.eps):
                fr_ = numpy.clip(numpy.floor(x + ex).astype('int64') + 1, 0, sc.rows - 1)
                fc_ = numpy.clip(numpy.floor(y + ey).astype('int64') + 1, 0, sc.cols - 1)
                hit = bad & ~is_dig & (v == remapped[fr_, fc_].astype('int64'))
                fr = fr_ if fr is None else numpy.where(hit, fr_, fr)
                fc = fc_ if fc is None else numpy.where(hit, fc_, fc)
                is_dig |= hit
        other = bad & ~is_dig
        if is_dig.any():
            k = int(numpy.nonzero(is_dig)[0][0])
            info = pixel_info(k)
            info['digitize_pixel'] = [int(fr[k]), int(fc[k])]
            fail(KEY_NN, f'{int(is_dig.sum())} of {int(inside.sum())} product pixels inside the source hold a neighbour of the nearest source pixel '
                 f'(the pixel floor(coordinate)+1): e.g. product pixel {info["product_pixel"]} lies at source coordinate '
                 f'({x[k]:.4f}, {y[k]:.4f}), nearest source pixel {info["nearest_source_pixel"]} (value {info["expected_value"]}), '
                 f'product holds {info["product_value"]} = source pixel {info["digitize_pixel"]}', dict(case, pixel=info))
        if other.any():
            k = int(numpy.nonzero(other)[0][0])
            info = pixel_info(k)
            key = 'resample:fill-inside-source' if v[k] == fill else 'resample:wrong-pixel'
            fail(key, f'{int(other.sum())} product pixels inside the source hold neither the nearest pixel nor its digitize neighbour: '
                 f'e.g. {json.dumps(info)}', dict(case, pixel=info))
    badout = outside & (v != fill)
    if badout.any():
        k = int(numpy.nonzero(badout)[0][0])
        info = pixel_info(k)
        fail('resample:value-outside-source', f'{int(badout.sum())} product pixels outside the source do not hold the fill value: e.g. {json.dumps(info)}',
             dict(case, pixel=info))
    badrim = rim & (v != fill) & (v != want)
    if badrim.any():
        k = int(numpy.nonzero(badrim)[0][0])
        info = pixel_info(k)
        fail('resample:rim-wrong-pixel', f'{int(badrim.sum())} product pixels on the half-pixel rim hold neither the fill value nor the nearest pixel: '
             f'e.g. {json.dumps(info)}', dict(case, pixel=info))
    return int((cls != 0).sum())


# ------------------------------------------------------------------ generators (chk.rng only)

GEOMS = [
    {'name': 'pfa-plane', 'kind': 'pfa', 'no_area': False, 'frame': 'default'},
    {'name': 'rma-plane', 'kind': 'rma', 'no_area': False, 'frame': 'default'},
    {'name': 'pfa-scp', 'kind': 'pfa', 'no_area': True, 'frame': 'default'},
    {'name': 'pfa-rot', 'kind': 'pfa', 'no_area': False, 'frame': 'rot'},
    {'name': 'rma-rot', 'kind': 'rma', 'no_area': True, 'frame': 'rot'},
]


def gen_spacings(rng):
    out = [None]
    out.append([round(rng.uniform(0.9, 1.4), 3), round(rng.uniform(0.9, 1.4), 3)])
    out.append([round(rng.uniform(0.55, 0.8), 3), round(rng.uniform(1.2, 1.9), 3)] if rng.random() < 0.5 else
               [round(rng.uniform(1.2, 1.9), 3), round(rng.uniform(0.55, 0.8), 3)])
    return out


def block_cfg(thick, dim, full):
    """a block size (MB) for which get_fetch_block_size gives exactly `thick` lines"""
    return {'mode': 'small', 'block_size': (8 * full * thick) / float(2 ** 20), 'dimension': dim, 'thick': thick}


def gen_coordinate(rng, g0, n):
    last = g0 + max(n, 1) - 1
    c = rng.random()
    k = rng.randint(g0, max(g0, last))
    if c < 0.16:
        return float(k), 'integer'
    if c < 0.26:
        return k + 0.5, 'half'
    if c < 0.36:
        return k + rng.choice([0.25, 0.75, 0.125]), 'dyadic'
    if c < 0.46:
        return k + rng.choice([1e-9, -1e-9, 1e-12]), 'near-integer'
    if c < 0.52:
        return float(g0), 'first-line'
    if c < 0.58:
        return float(last), 'last-line'
    if c < 0.64:
        return last - rng.choice([1e-9, 0.5, 0.25]), 'below-last-line'
    if c < 0.72:
        return g0 - rng.choice([1e-9, 0.3, 0.5, 2.0]), 'below-window'
    if c < 0.80:
        return last + rng.choice([1e-9, 0.2, 0.5, 3.0]), 'above-window'
    if c < 0.84:
        return rng.choice([float('nan'), float('inf'), float('-inf')]), 'non-finite'
    return rng.uniform(g0 - 1.0, last + 1.0), 'uniform'


def run(tier):
    sarpy_guard()
    logging.disable(logging.CRITICAL)
    from sarpy.processing.ortho_rectify import NearestNeighborMethod, ProjectionHelper
    from sarpy.processing.ortho_rectify.ortho_methods import OrthorectificationHelper
    from sarpy.io.complex.utils import get_fetch_block_size, extract_blocks
    chk = Check('C20', tier)
    rng = chk.rng
    broken = chk.prove(['SarpyModel.Props.C20', 'SarpyModel.Drivers'], 'SarpyModel.Props.C20', 'Sarpy.Props.C20', REQUIRED)
    thorough = tier != 'quick'

    fails = []            # direct-oracle failures on the implementation
    per_key = {}
    disagreements = []    # model vs implementation
    stats = {}
    feats = set()
    evaluations = 0

    def fail(key, msg, case):
        per_key[key] = per_key.get(key, 0) + 1
        if per_key[key] <= 3:
            fails.append({'key': key, 'msg': msg, 'case': case})

    def disagree(what, msg, case):
        if len(disagreements) < 50:
            disagreements.append({'what': what, 'msg': msg, 'case': case})

    tmp = tempfile.mkdtemp(dir='/var/tmp')
    old_err = numpy.seterr(all='ignore')
    scenes = []
    try:
        drv = Driver()
        # ============================================================ B. end to end (the search), model questions collected on the way
        geoms = list(GEOMS) * 3 if thorough else [rng.choice(GEOMS[:3]), rng.choice(GEOMS[3:])]     # quick: one aligned, one rotated frame
        products = 0
        plane_q = []       # (question index, expected vector, tolerance, what, case)
        block_q = []
        samples = []
        for gi, geom in enumerate(geoms):
            rows = rng.randint(40, 64)
            cols = rng.randint(30, 64)
            sc = Scene({'rows': rows, 'cols': cols, 'kind': geom['kind'], 'no_area': geom['no_area'], 'phase': rng.randrange(4)}, tmp)
            scenes.append(sc)
            theta = round(rng.uniform(0, 360), 2)
            refpix = [rng.choice([0.0, 100.0, -40.0, 12.25, 7.5]), rng.choice([0.0, -60.0, 33.0, 0.5, 20.75])]
            pad = rng.choice([None, None, 500.5])      # remaps to 500, which is no pixel code (columns < 499)
            spacings = gen_spacings(rng)
            if geom['frame'] == 'rot':
                spacings = [s or [1.0, 1.0] for s in spacings]
            for si, sp in enumerate(spacings):
                pcfg = {'frame': geom['frame'], 'theta': theta, 'refpix': refpix, 'spacing': sp, 'spacing_after': sp is not None and rng.random() < 0.5}
                base = {'scene': sc.cfg, 'geometry': geom['name'], 'proj': pcfg, 'pad': pad}
                group = []      # (case, product) sharing scene / projection / bounds / pad / depth: pixel arrays must be identical

                def make(version, bcfg, bounds=None, depth=16):
                    nonlocal products, evaluations
                    case = dict(base, version=version, block=bcfg, bounds=bounds, depth=depth)
                    products += 1
                    feats.add((geom['name'], si, version, bcfg['mode'], bcfg.get('thick'), bcfg['dimension'], bounds is not None, depth, pad))
                    try:
                        prod = create_product(sc, pcfg, version, bcfg, bounds, pad, depth, tmp)
                    except Exception as ex:
                        tb = traceback.format_exc()
                        if isinstance(ex, ValueError) and 'bounds is required to be of the form' in str(ex) and 'extract_pixel_bounds' in tb:
                            fail(KEY_THIN, f'create_detected_image_sidd raised ValueError({ex}) while iterating blocks of {bcfg.get("thick")} ortho lines '
                                 f'(split dimension {bcfg["dimension"]}): extract_pixel_bounds rounds the block\'s source extent inwards', case)
                        else:
                            fail('create:raises:' + type(ex).__name__, f'create_detected_image_sidd raised {type(ex).__name__}: {ex}', dict(case, traceback=tb[-1500:]))
                        return None
                    evaluations += check_product(sc, prod, case, fail, stats, disagree)
                    # model ties: plane of the product, block structure
                    ph, sidd = prod['ph'], prod['sidd']
                    pl = sidd_plane(sidd)
                    b0 = ph.reference_pixels[0] - pl['point'][0]
                    b2 = ph.reference_pixels[1] - pl['point'][1]
                    Rr, Cc = prod['img'].shape[:2]
                    tok = plane_tokens(ph)
                    for _ in range(4 if not thorough else 8):
                        i, j = rng.randrange(Rr), rng.randrange(Cc)
                        gpl = sidd.project_image_to_ground(numpy.array([[float(i), float(j)]]), projection_type='PLANE', gref=pl['ref'],
                                                           ugpn=numpy.cross(pl['row'], pl['col']))[0]
                        gfm = pl['ref'] + (i - pl['point'][0]) * pl['ss'][0] * pl['row'] + (j - pl['point'][1]) * pl['ss'][1] * pl['col']
                        if not float(numpy.abs(gpl - gfm).max()) <= 1e-5:
                            fail('metadata:plane-projection-vs-fields', f'product pixel ({i}, {j}): project_image_to_ground(PLANE) {gpl.tolist()} vs '
                                 f'PlaneProjection fields {gfm.tolist()}', case)
                        plane_q.append((drv.ask(f'ortho prod {tok} {bits(b0)} {bits(b2)} {bits(i)} {bits(j)}'), gfm, TOL_M, 'product-plane', case))
                        gcode = ph.ortho_to_ecf(numpy.array([i + b0, j + b2]))
                        if not float(numpy.abs(gcode - gfm).max()) <= 1e-5:
                            fail('metadata:sidd-plane-vs-ortho-grid', f'product pixel ({i}, {j}) = ortho ({i + b0}, {j + b2}): ortho_to_ecf {gcode.tolist()} vs '
                                 f'SIDD PlaneProjection {gfm.tolist()}', case)
                    for rec in prod['log']:
                        if rec[0] == 'fbs' and rec[3] is not None and rec[1] != rec[2]:
                            block_q.append((drv.ask(f'ortho fbs {rec[3]} {abs(rec[2] - rec[1])}'), str(rec[4]), 'get_fetch_block_size', rec))
                        if rec[0] == 'blocks' and rec[2] is not None:
                            lo, hi = rec[1][0], rec[1][1]
                            want = ','.join(f'{a - lo}:{b - lo}' for a, b, _ in rec[3])
                            block_q.append((drv.ask(f'ortho blocks {hi - lo} {int(rec[2])}'), want, 'extract_blocks', rec))
                            stats.setdefault('block_counts', {})
                            stats['block_counts'][str(len(rec[3]))] = stats['block_counts'].get(str(len(rec[3])), 0) + 1
                    return case, prod

                ref = make(3, {'mode': 'rec', 'block_size': 10, 'dimension': 0})
                if ref is None:
                    continue
                group.append(ref)
                Rr, Cc = ref[1]['img'].shape[:2]
                if len(samples) < 3:
                    samples.append(json.dumps({'geometry': geom['name'], 'source': [rows, cols], 'spacing': sp, 'product': [Rr, Cc],
                                               'plane_point': [float(t) for t in sidd_plane(ref[1]['sidd'])['point']]}))
                todo = [(1, {'mode': 'rec', 'block_size': 0.25, 'dimension': 1}), (2, {'mode': 'api', 'block_size': 10, 'dimension': 0})]
                thicks = [3, 5, 8, 17] if not thorough else [3, 4, 7, 11, 17, 29]
                for dim in (0, 1):
                    full = Rr if dim == 0 else Cc
                    picks = thicks if thorough else rng.sample(thicks, 2)
                    for t in picks:
                        todo.append((rng.choice([1, 2, 3]), block_cfg(t, dim, full)))
                # one configuration with blocks of two ortho lines (the thinnest the iterator produces)
                dthin = rng.choice([0, 1])
                todo.append((rng.choice([1, 2, 3]), block_cfg(2, dthin, Rr if dthin == 0 else Cc)))
                for version, bcfg in todo:
                    r = make(version, bcfg)
                    if r is not None:
                        group.append(r)
                # a sub-rectangle of the source as bounds, and an 8 bit product (compared through the remap)
                if si == 0 or thorough:
                    r0, c0 = rng.randint(0, rows // 3), rng.randint(0, cols // 3)
                    bnds = [r0, rng.randint(r0 + rows // 3, rows), c0, rng.randint(c0 + cols // 3, cols)]
                    g2 = [make(3, {'mode': 'rec', 'block_size': 10, 'dimension': 0}, bounds=bnds)]
                    if g2[0] is not None:
                        R2, C2 = g2[0][1]['img'].shape[:2]
                        g2.append(make(rng.choice([1, 2]), block_cfg(rng.choice([3, 6]), 1, C2), bounds=bnds))
                        same_group(g2, fail, sc, stats)
                    g3 = [make(rng.choice([1, 2, 3]), {'mode': 'rec', 'block_size': 10, 'dimension': 0}, depth=8),
                          make(rng.choice([1, 2, 3]), block_cfg(rng.choice([4, 9]), 0, Rr), depth=8)]
                    same_group(g3, fail, sc, stats)
                same_group(group, fail, sc, stats)
        # a larger scene processed in several blocks by the unmodified public API (block_size = 0.25 MB, no wrapper at all)
        big = rng.choice(GEOMS[:3])
        scb = Scene({'rows': rng.randint(170, 200), 'cols': rng.randint(170, 200), 'kind': big['kind'], 'no_area': big['no_area'], 'phase': 0}, tmp)
        scenes.append(scb)
        pcfg = {'frame': 'default', 'theta': 0.0, 'refpix': [0.0, 0.0], 'spacing': [0.6, 0.65]}     # ~270 x 270 ortho pixels: 2-3 blocks of 0.25 MB
        baseb = {'scene': scb.cfg, 'geometry': big['name'] + '-large', 'proj': pcfg, 'pad': None}
        groupb = []
        for version, bcfg in ((3, {'mode': 'api', 'block_size': 10, 'dimension': 0}), (rng.choice([1, 2]), {'mode': 'api', 'block_size': 0.25, 'dimension': rng.choice([0, 1])}),
                              (2, {'mode': 'rec', 'block_size': 0.25, 'dimension': 0})):
            case = dict(baseb, version=version, block=bcfg, bounds=None, depth=16)
            products += 1
            feats.add((big['name'] + '-large', version, bcfg['mode'], bcfg['block_size'], bcfg['dimension']))
            try:
                prod = create_product(scb, pcfg, version, bcfg, None, None, 16, tmp)
            except Exception as ex:
                fail('create:raises:' + type(ex).__name__, f'create_detected_image_sidd raised {type(ex).__name__}: {ex}', dict(case, traceback=traceback.format_exc()[-1500:]))
                continue
            evaluations += check_product(scb, prod, case, fail, stats, disagree)
            for rec in prod['log']:
                if rec[0] == 'blocks' and rec[2] is not None:
                    lo, hi = rec[1][0], rec[1][1]
                    want = ','.join(f'{a - lo}:{b - lo}' for a, b, _ in rec[3])
                    block_q.append((drv.ask(f'ortho blocks {hi - lo} {int(rec[2])}'), want, 'extract_blocks', rec))
                    stats.setdefault('public_api_block_counts', []).append(len(rec[3]))
            groupb.append((case, prod))
        same_group(groupb, fail, scb, stats)
        # a reader with two images (AggregateComplexReader): a helper built for index k must fetch the pixels of image k - the two scenes
        # have different sizes and different code pitches, and the second fits inside the first, so nothing but the pixel values tells them apart
        ra, ca = rng.randint(44, 60), rng.randint(40, 60)
        two = [{'rows': ra, 'cols': ca, 'kind': 'pfa', 'no_area': False, 'phase': 0},
               {'rows': ra - rng.randint(4, 12), 'cols': ca - rng.randint(4, 12), 'kind': 'pfa', 'no_area': False, 'phase': 1, 'K': 500}]
        for k in (1, 0):
            vcfg = {'two_image': two, 'index': k}
            view, parts = two_image_view(vcfg, tmp)
            scenes += parts
            pcfg = {'frame': 'default', 'theta': 0.0, 'refpix': [0.0, 0.0], 'spacing': None}
            bcfg = {'mode': 'rec', 'block_size': 10, 'dimension': 0} if k else block_cfg(7, 1, 60)
            case = {'scene': vcfg, 'geometry': 'two-image-reader', 'proj': pcfg, 'pad': None, 'version': 3, 'block': bcfg, 'bounds': None, 'depth': 16}
            products += 1
            feats.add(('two-image', k, bcfg['mode']))
            try:
                prod = create_product(view, pcfg, 3, bcfg, None, None, 16, tmp)
            except Exception as ex:
                fail('create:raises:' + type(ex).__name__, f'two-image reader, helper for index {k}: create_detected_image_sidd raised {type(ex).__name__}: {ex}',
                     dict(case, traceback=traceback.format_exc()[-1500:]))
                continue
            evaluations += check_product(view, prod, case, fail, stats, disagree)
            stats['two_image_products'] = stats.get('two_image_products', 0) + 1

        # the default ortho helper (no projection helper given): the ortho bounds then come from RadarCollection.Area.Plane, which may be
        # much larger than the image, so that whole processing blocks fall outside the source.  Those blocks are all fill; creation
        # must succeed for every block configuration and give the same pixels
        from sarpy.processing.ortho_rectify import NearestNeighborMethod as _NN
        from sarpy.processing.sidd import sidd_product_creation as _spc
        from sarpy.io.product.converter import open_product as _open_product
        sca = scenes[0] if not scenes[0].cfg.get('no_area') else None
        if sca is not None and sca.sicd.RadarCollection is not None and sca.sicd.RadarCollection.Area is not None:
            outs = []
            for bcfg in ({'block_size': 10, 'dimension': 0}, {'block_size': 0.25, 'dimension': 0}, {'block_size': 0.25, 'dimension': 1}):
                case = {'scene': sca.cfg, 'geometry': 'area-plane-default-helper', 'block': bcfg, 'version': 2, 'proj': 'default helper', 'pad': 7}
                products += 1
                feats.add(('area-plane-default-helper', bcfg['block_size'], bcfg['dimension']))
                name = 'area_%s_%d.nitf' % (bcfg['block_size'], bcfg['dimension'])
                try:
                    oh_a = _NN(sca.reader, index=0, pad_value=7)
                    _spc.create_detected_image_sidd(oh_a, tmp, output_file=name, block_size=bcfg['block_size'], dimension=bcfg['dimension'],
                                                    version=2, remap_function=make_remap(16, sca))
                    rd_a = _open_product(os.path.join(tmp, name))
                    try:
                        outs.append((case, numpy.array(rd_a[:, :])))
                    finally:
                        rd_a.close()
                        os.remove(os.path.join(tmp, name))
                except Exception as ex:
                    fail('create:raises:' + type(ex).__name__, f'create_detected_image_sidd with the default ortho helper (ortho bounds from the {sca.sicd.RadarCollection.Area.Plane.XDir.NumLines} x '
                                                               f'{sca.sicd.RadarCollection.Area.Plane.YDir.NumSamples} area plane of a {sca.rows} x {sca.cols} image) raised {type(ex).__name__}: {ex}',
                         dict(case, traceback=traceback.format_exc()[-1500:]))
            # steered block configurations: a block whose padded source window ends exactly at the image edge (exclusive upper bound 0) misses
            # the image like any block further out.  The library's own block arithmetic is used to FIND such a configuration (steering only);
            # the judgement is the usual one: creation succeeds and the pixels equal those of the first configuration
            try:
                from sarpy.processing.ortho_rectify import OrthorectificationIterator as _OI
                steered = None
                for dim_s in (0, 1):
                    for t_s in range(1, 60):
                        bs_s = t_s * 8 * (sca.cols if dim_s == 1 else sca.rows) / 1048576.0 * 1.0001
                        it_s = _OI(_NN(sca.reader, index=0, pad_value=7), calculator=fetchers()['small'](sca.reader, dimension=dim_s, index=0, block_size=bs_s),
                                   bounds=None, remap_function=make_remap(16, sca), recalc_remap_globals=False)
                        for k_s in range(len(it_s._iteration_blocks)):
                            it_s._this_index = k_s
                            pb_s = it_s._get_state_parameters()[1]
                            if pb_s[1] == 0 or pb_s[3] == 0:
                                steered = {'mode': 'small', 'block_size': bs_s, 'dimension': dim_s, 'steered_block': k_s, 'padded_source_window': [int(u) for u in pb_s]}
                                break
                        if steered:
                            break
                    if steered:
                        break
            except Exception:
                steered = None
            stats['area_plane_steered_edge_block'] = int(steered is not None)
            if steered is not None and outs:
                case = {'scene': sca.cfg, 'geometry': 'area-plane-default-helper', 'block': steered, 'version': 2, 'proj': 'default helper', 'pad': 7, 'bounds': None, 'depth': 16}
                products += 1
                feats.add(('area-plane-default-helper', 'steered-edge-block', steered['dimension']))
                try:
                    prod_s = create_product(sca, None, 2, steered, None, 7, 16, tmp, name='area_steered.nitf', oh_factory=lambda: _NN(sca.reader, index=0, pad_value=7))
                    outs.append((case, prod_s['img']))
                except Exception as ex:
                    fail('create:raises:' + type(ex).__name__, f'create_detected_image_sidd with the default ortho helper and blocks of about {steered["block_size"] * 1048576 / 8:.0f} samples along '
                         f'dimension {steered["dimension"]} raised {type(ex).__name__}: {ex} (block {steered["steered_block"]} has the padded source window '
                         f'{steered["padded_source_window"]}: it ends exactly at the image edge)', dict(case, traceback=traceback.format_exc()[-1500:]))
            for case, img in outs[1:]:
                evaluations += img.size
                if img.shape != outs[0][1].shape or not numpy.array_equal(img, outs[0][1]):
                    fail('blocks:product-differs', f'default ortho helper: the product of block configuration {case["block"]} differs from that of {outs[0][0]["block"]}', case)
            stats['area_plane_products'] = len(outs)

        # the default helper (rational-polynomial projection) with its spacings re-assigned after construction and the fit repeated
        # (the sequence kmz_product_creation uses to coarsen the grid): the product must follow the spacings its metadata declares.
        # The rational functions are fits: such products are decided to within one source pixel (FIT_PX, see check_product).
        for scr in [q for q in scenes if not q.cfg.get('no_area')][:2] + [q for q in scenes if q.cfg.get('no_area')][:1]:
            for refit in (False, True):
                fac = [rng.choice([1.0, 1.7, 2.3]), rng.choice([1.0, 0.6, 1.9])] if refit else [1.0, 1.0]
                holder = {}

                def factory(scr=scr, fac=fac, refit=refit, holder=holder):
                    oh_r = _NN(scr.reader, index=0, pad_value=None)
                    ph_r = oh_r.proj_helper
                    holder['type'] = type(ph_r).__name__
                    if refit:
                        ph_r.row_spacing = ph_r.row_spacing * fac[0]
                        ph_r.col_spacing = ph_r.col_spacing * fac[1]
                        if hasattr(ph_r, 'perform_rational_poly_fitting'):
                            ph_r.perform_rational_poly_fitting()
                    holder['spacing'] = [float(ph_r.row_spacing), float(ph_r.col_spacing)]
                    return oh_r
                case = {'scene': scr.cfg, 'geometry': 'default-helper-refit' if refit else 'default-helper', 'spacing_factors': fac, 'version': 3,
                        'block': {'mode': 'api', 'block_size': 10, 'dimension': 0}, 'bounds': None, 'depth': 16, 'pad': None, 'proj': 'default helper'}
                products += 1
                try:
                    prod = create_product(scr, None, 3, case['block'], None, None, 16, tmp, name='ratpoly.nitf', oh_factory=factory)
                except Exception as ex:
                    fail('create:raises:' + type(ex).__name__, f'create_detected_image_sidd with the default helper{" after re-assigned spacings and a repeated fit" if refit else ""} '
                                                               f'raised {type(ex).__name__}: {ex}', dict(case, traceback=traceback.format_exc()[-1500:]))
                    continue
                case['helper'] = holder.get('type')
                feats.add(('default-helper', holder.get('type'), refit))
                pl_r = sidd_plane(prod['sidd'])
                if holder.get('spacing') and not (abs(pl_r['ss'][0] - holder['spacing'][0]) <= 1e-9 and abs(pl_r['ss'][1] - holder['spacing'][1]) <= 1e-9):
                    fail('metadata:spacing', f'the product declares sample spacing {list(pl_r["ss"])}, the helper was set to {holder["spacing"]}', case)
                evaluations += check_product(scr, prod, case, fail, stats, disagree)
                stats['default_helper_products'] = stats.get('default_helper_products', 0) + 1

        # ============================================================ A. correspondence at Float
        sc0 = scenes[0]
        # A1 plane maps of real PGProjection objects
        a1 = []
        n_planes = 6 if not thorough else 30
        for k in range(n_planes):
            frame = rng.choice(['default', 'rot'])
            pcfg = {'frame': frame, 'theta': rng.uniform(0, 360), 'refpix': [rng.uniform(-200, 200), rng.uniform(-200, 200)],
                    'spacing': rng.choice([None, [rng.uniform(0.2, 5), rng.uniform(0.2, 5)]]) if frame == 'default' else [rng.uniform(0.2, 5), rng.uniform(0.2, 5)]}
            scx = rng.choice(scenes)
            ph = make_proj(scx, pcfg)
            tok = plane_tokens(ph)
            feats.add(('plane', frame, pcfg['spacing'] is None))
            # the frame the maps rely on (oracle on the implementation: unit, perpendicular, positive spacing)
            rv, cv = ph.row_vector, ph.col_vector
            if not (abs(rv.dot(rv) - 1) < 1e-9 and abs(cv.dot(cv) - 1) < 1e-9 and abs(rv.dot(cv)) < 1e-9 and ph.row_spacing > 0 and ph.col_spacing > 0):
                fail('plane:frame-not-orthonormal', f'PGProjection frame row.row={rv.dot(rv)!r} col.col={cv.dot(cv)!r} row.col={rv.dot(cv)!r}', {'proj': pcfg})
            for _ in range(12):
                kind = rng.choice(['int', 'frac', 'far'])
                if kind == 'int':
                    rc = [float(rng.randint(-300, 900)), float(rng.randint(-300, 900))]
                elif kind == 'frac':
                    rc = [rng.uniform(-300, 900), rng.uniform(-300, 900)]
                else:
                    rc = [rng.uniform(-2e4, 2e4), rng.uniform(-2e4, 2e4)]
                e = ph.ortho_to_ecf(numpy.array(rc))
                back = ph.plane_ecf_to_ortho(e)
                evaluations += 1
                if not float(numpy.abs(back - numpy.array(rc)).max()) <= 1e-6:
                    fail('plane:roundtrip', f'ortho {rc} -> ECF {e.tolist()} -> ortho {back.tolist()}', {'proj': pcfg, 'rc': rc})
                a1.append((drv.ask(f'ortho o2e {tok} {bits(rc[0])} {bits(rc[1])}'), e, TOL_M, 'ortho_to_ecf', {'proj': pcfg, 'rc': rc}))
                a1.append((drv.ask(f'ortho e2o {tok} {bits(e[0])} {bits(e[1])} {bits(e[2])}'), back, TOL_PX * max(1.0, abs(rc[0]), abs(rc[1])), 'plane_ecf_to_ortho',
                           {'proj': pcfg, 'ecf': e.tolist()}))
                # batch shape against the single call
                eb = ph.ortho_to_ecf(numpy.array([rc, rc]))
                if eb.shape != (2, 3) or not numpy.array_equal(eb[0], e):
                    fail('plane:batch', f'ortho_to_ecf of a (2, 2) array differs from the single call: {eb.tolist()} vs {e.tolist()}', {'proj': pcfg, 'rc': rc})
        # A3 digitize + mask against the model index functions
        a3 = []
        n_idx = 1200 if not thorough else 20000
        idx_classes = {}
        for k in range(n_idx):
            g0 = rng.choice([0, 0, 3, -5, 17, 1000])
            n = rng.choice([1, 2, 3, 7, 10, 40])
            xv, cl = gen_coordinate(rng, g0, n)
            idx_classes[cl] = idx_classes.get(cl, 0) + 1
            feats.add(('idx', cl, n == 1))
            arr = numpy.arange(g0, g0 + n)
            xa = numpy.array([xv])
            m = bool(OrthorectificationHelper._get_mask(xa, numpy.zeros(1), arr, numpy.array([-1, 1]))[0])
            code = int(numpy.digitize(xa, arr)[0]) if m else None
            a3.append((drv.ask(f'ortho idx {g0} {n} {bits(xv)}'), code, g0, n, xv, cl))
            evaluations += 1
        # A4 NearestNeighborMethod on small arrays through a table-driven projection
        class TableProjection(ProjectionHelper):
            def __init__(self, sicd, table, origin):
                ProjectionHelper.__init__(self, sicd, row_spacing=1.0, col_spacing=1.0)
                self.table = table
                self.origin = origin

            def ortho_to_pixel(self, ortho_coords):
                oc = numpy.asarray(ortho_coords)
                return self.table[oc[..., 0] - self.origin[0], oc[..., 1] - self.origin[1]]

            def ecf_to_ortho(self, coords):
                raise NotImplementedError

            def ecf_to_pixel(self, coords):
                raise NotImplementedError

            def ll_to_ortho(self, ll_coords):
                raise NotImplementedError

            def llh_to_ortho(self, llh_coords):
                raise NotImplementedError

            def pixel_to_ortho(self, pixel_coords):
                raise NotImplementedError

            def pixel_to_ecf(self, pixel_coords):
                raise NotImplementedError

            def ortho_to_ecf(self, ortho_coords):
                raise NotImplementedError

        a4 = []
        n_arr = 25 if not thorough else 400
        for k in range(n_arr):
            g0r, g0c = rng.choice([0, 4, -3, 250]), rng.choice([0, 9, -2, 77])
            nr_, nc_ = rng.choice([0, 1, 2, 5, 9]) if k % 9 == 8 else rng.choice([2, 5, 9]), rng.choice([1, 3, 6, 10])
            Rr, Cc = rng.randint(2, 8), rng.randint(2, 8)
            o0, p0 = rng.randint(-20, 50), rng.randint(-20, 50)
            table = numpy.zeros((Rr, Cc, 2))
            for a in range(Rr):
                for b in range(Cc):
                    table[a, b, 0], c1 = gen_coordinate(rng, g0r, nr_)
                    table[a, b, 1], c2 = gen_coordinate(rng, g0c, nc_)
                    feats.add(('nn', c1, c2))
            vals = (numpy.arange(nr_ * nc_, dtype='float32').reshape((nr_, nc_)) * 3 + 11)
            padv = rng.choice([None, -5.0, 2.5])
            complex_in = rng.random() < 0.3
            oh = NearestNeighborMethod(sc0.reader, index=0, proj_helper=TableProjection(sc0.sicd, table, (o0, p0)), pad_value=padv)
            case = {'kind': 'nn-array', 'g0r': g0r, 'nr': nr_, 'g0c': g0c, 'nc': nc_, 'ortho_origin': [o0, p0], 'table': table.tolist(), 'pad': padv}
            try:
                got = oh.get_orthorectified_from_array(numpy.array([o0, o0 + Rr, p0, p0 + Cc]), numpy.arange(g0r, g0r + nr_), numpy.arange(g0c, g0c + nc_),
                                                       (vals * (1j if complex_in else 1)).astype('complex64' if complex_in else 'float32'))
            except Exception as ex:
                fail('nn-array:raises', f'get_orthorectified_from_array raised {type(ex).__name__}: {ex}', case)
                continue
            if got.shape != (Rr, Cc):
                fail('nn-array:shape', f'output shape {got.shape} for ortho bounds of {Rr} x {Cc}', case)
                continue
            for a in range(Rr):
                for b in range(Cc):
                    q1 = drv.ask(f'ortho nn {g0r} {nr_} {g0c} {nc_} {bits(table[a, b, 0])} {bits(table[a, b, 1])}')
                    q2 = drv.ask(f'ortho idx {g0r} {nr_} {bits(table[a, b, 0])}')
                    q3 = drv.ask(f'ortho idx {g0c} {nc_} {bits(table[a, b, 1])}')
                    a4.append((q1, q2, q3, float(got[a, b]), vals, 0.0 if padv is None else padv, case, (a, b)))
                    evaluations += 1
        # A5 block helpers on their own
        a5 = []
        for k in range(150 if not thorough else 3000):
            lo = rng.randint(-500, 500)
            size = rng.choice([1, 2, 3, 10, 37, 64, 100, rng.randint(1, 400)])
            step = rng.choice([1, 2, 3, 5, 16, size, size + 1, max(1, size - 1), rng.randint(1, 80)])
            out = extract_blocks((lo, lo + size, 1), step)[0]
            a5.append((drv.ask(f'ortho blocks {size} {step}'), ','.join(f'{a - lo}:{b - lo}' for a, b, _ in out), 'extract_blocks', [lo, size, step]))
            nbytes = rng.choice([262144, 10 * 2 ** 20, rng.randint(1, 10 ** 7), 8 * rng.randint(1, 5000)])
            full = rng.randint(1, 5000)
            a5.append((drv.ask(f'ortho fbs {nbytes} {full}'), str(get_fetch_block_size(0, full, nbytes)), 'get_fetch_block_size', [nbytes, full]))
            feats.add(('blocks', step == 1, step >= size))
            evaluations += 2
        a5.append((drv.ask('ortho asm 7 9 4 0'), 'eq', 'assemble', []))
        a5.append((drv.ask('ortho asm 13 5 1 1'), 'eq', 'assemble', []))

        try:
            ans = drv.run()
        except Infra as e:
            ans = None
            broken.append('model driver does not build/run: ' + str(e)[:300])

        traces = 0
        variant = None
        if ans is not None:
            for qi, want, tol, what, case in plane_q + a1:
                t = ans[qi].split()
                traces += 1
                if len(t) != len(want) or t == ['bad-op']:
                    disagree(what, f'model answered {ans[qi][:60]}', case)
                    continue
                mv = numpy.array([unbits(s) for s in t])
                d = float(numpy.abs(mv - numpy.asarray(want)).max())
                stats.setdefault('max_model_difference', {})
                stats['max_model_difference'][what] = max(stats['max_model_difference'].get(what, 0.0), d)
                if not d <= tol:
                    disagree(what, f'{what}: model {mv.tolist()} vs sarpy {numpy.asarray(want).tolist()} (|d| = {d:.3e})', case)
            for qi, want, what, rec in block_q + a5:
                traces += 1
                if ans[qi] != want:
                    disagree(what, f'{what} {rec}: model {ans[qi][:200]} vs sarpy {want[:200]}', {'record': rec})
            for qi, code, g0, n, xv, cl in a3:
                t = ans[qi].split()
                traces += 1
                mcode = None if t[0] == 'F' else int(t[0])
                if len(t) != 4 or mcode != code:
                    disagree('digitize', f'digitize/mask of x={xv!r} on lines {g0}..{g0 + n - 1} ({cl}): model {ans[qi]} vs numpy {code}', {'g0': g0, 'n': n, 'x': xv})
                if math.isfinite(xv) and t[2] != str(math.floor(xv + 0.5)):
                    disagree('nearest', f'nearest integer of {xv!r}: model {t[2]} vs floor(x + 1/2) {math.floor(xv + 0.5)}', {'x': xv})
            miss = {'digitize': 0, 'repaired': 0}
            first = {}
            for q1, q2, q3, got, vals, padv, case, ab in a4:
                traces += 1
                t1 = ans[q1].split()
                ti, tj = ans[q2].split(), ans[q3].split()
                if len(t1) != 2 or len(ti) != 4 or len(tj) != 4:
                    disagree('nn', f'model answered {ans[q1]} / {ans[q2]} / {ans[q3]}', case)
                    continue
                cs = t1[0][2:]
                want_code = padv if cs == 'F' else float(vals[int(cs.split(',')[0]), int(cs.split(',')[1])])
                # the 2-d sample function and the two 1-d index functions of the model must say the same thing
                if (cs == 'F') != (ti[0] == 'F' or tj[0] == 'F') or (cs != 'F' and cs != f'{ti[0]},{tj[0]}'):
                    disagree('nn-model', f'codeSample {cs} vs codeIndex {ti[0]},{tj[0]}', case)
                want_fix = padv if (ti[3] == 'F' or tj[3] == 'F') else float(vals[int(ti[3]), int(tj[3])])
                for nm, w in (('digitize', want_code), ('repaired', want_fix)):
                    if got != w:
                        miss[nm] += 1
                        first.setdefault(nm, (got, w, case, ab))
            if a4:
                if miss['digitize'] == 0:
                    variant = 'digitize'
                elif miss['repaired'] == 0:
                    variant = 'repaired'
                else:
                    nm = 'digitize' if miss['digitize'] <= miss['repaired'] else 'repaired'
                    got, w, case, ab = first[nm]
                    disagree('nn', f'NearestNeighborMethod on a small array follows neither index model ({miss["digitize"]} / {miss["repaired"]} of {len(a4)} pixels differ); '
                             f'e.g. output pixel {ab}: sarpy {got} vs `{nm}` model {w}', case)
        if stats.get('remap_not_identity'):
            chk.notes.append(f'Linear(16 bit, 0..65535) did not reproduce the integer codes on {stats["remap_not_identity"]} products; pixels were compared through the remap only')

        dist = stats.get('index_difference', {})
        tot = sum(dist.values())
        chk.coverage.update({
            'evaluations': evaluations,
            'distinct_nontrivial': len(feats),
            'rule': 'end to end: source geometries {PFA, RMA example SICD with the collection-area plane; PFA without area (SCP tangent plane); rotated plane frames '
                    'with fractional reference pixels} (quick: one aligned and one rotated frame drawn by the seed, thorough: all five, three scenes each), source sizes 40-64 x 30-64, three output sample spacings '
                    '(default, coarser, anisotropic), SIDD versions 1/2/3, split dimension 0/1, block thickness {2, 3, 5, 8, 17, ..} ortho lines (block_size below the '
                    "0.25 MB floor is passed through a FullResolutionFetcher subclass that only drops the floor), one block, source sub-rectangle as bounds, 8 bit "
                    'product through the remap, pad value {0, 500.5}; plus one 170-200 pixel scene split by the unmodified public API at block_size 0.25; plus a two-image '
                    'reader (AggregateComplexReader over two scenes of different size and code pitch, the second fitting inside the first): products of helpers built for index 1 and 0. Every product '
                    'pixel is classified inside / rim / outside by its source coordinate; coordinates within eps (~2.5e-3 px, the code iterates to 1e-3 m) of a decision '
                    'boundary are undecided. Correspondence: plane maps on random integer / fractional / far ortho coordinates; index function on integer, half, dyadic, '
                    'near-integer, first / last line, outside, non-finite, uniform coordinates; NearestNeighborMethod on 2-8 x 2-8 outputs from windows of 0-10 lines; '
                    'extract_blocks / get_fetch_block_size on random ranges. distinct = distinct configuration / class tuples seen.',
            'samples': samples,
            'traces_validated_against_impl': traces,
            'disagreements_checked': len(disagreements),
            'products_created': products,
            'pixel_classes': {k: stats.get(k, 0) for k in ('pixels_inside', 'pixels_rim', 'pixels_outside', 'pixels_undecided', 'rim_fill', 'rim_nearest')},
            'index_difference_distribution': dict(sorted(dist.items())),
            'fraction_of_inside_pixels_holding_the_nearest_source_pixel': (round(dist.get('+0,+0', 0) / tot, 4) if tot else None),
            'implementation_follows_index_model': variant,
            'index_coordinate_classes': idx_classes,
            'undecided_block_differences': stats.get('undecided_block_differences', 0),
            'block_counts': stats.get('block_counts'),
            'public_api_block_counts': stats.get('public_api_block_counts'),
            'max_model_difference': {k: float('%.3e' % v) for k, v in stats.get('max_model_difference', {}).items()},
            'max_source_coordinate_difference_px': {'hae_projection_vs_plane_fields': float('%.3e' % stats.get('route_px_max', 0.0)),
                                                    'code_ortho_to_pixel_vs_product_metadata': float('%.3e' % stats.get('code_vs_metadata_px_max', 0.0))},
            'failing_inputs_by_key': per_key,
            'failing_examples': {k: [f['msg'][:400] for f in fails if f['key'] == k][:2] for k in per_key},
        })
        chk.assumptions += [
            'the theorems are over the reals; IEEE rounding in the plane maps is tied by tolerance (1e-6 m / 1e-7 px against observed ~1e-9)',
            'the source coordinate of an ortho pixel comes from SICDType.project_ground_to_image (property C04); the model takes it as an input. Product pixels whose '
            'coordinate is within eps of a tie or an image edge are not decided',
            '"inside the source image" is read as inside the hull of the pixel centres [0, n-1]; "outside" as having no nearest pixel (beyond n-1/2 or below -1/2); on the '
            'half-pixel rim in between both the fill value and the nearest pixel are accepted (the code pads there)',
            'block_tiling_independent assumes blocks are computed pointwise; that each block\'s padded source window holds every line its pixels need is checked only '
            'by comparing products across block sizes',
            'blocks thinner than the public 0.25 MB floor allows for these image sizes are produced through a subclass of FullResolutionFetcher that removes the floor; '
            'one larger scene is split by the unmodified API',
            'the rational-polynomial projection (PGRatPolyProjection, the default helper) is covered by whole products only (as created, and after re-assigned '
            'spacings with a repeated fit) and decided to within ONE source pixel because the rational functions are fits (inside: a source pixel within one pixel of the '
            'nearest; more than 1.5 pixels outside: fill); the DEM projection is not covered',
            'code_not_nearest: the unchanged NearestNeighborMethod is proved (on the model) and observed (on the products) NOT to select the nearest pixel',
        ]
    finally:
        numpy.seterr(**old_err)
        for sc in scenes:
            sc.close()
        shutil.rmtree(tmp, ignore_errors=True)
        logging.disable(logging.NOTSET)

    unknown = [f for f in fails if not chk.known(f.get('key', ''))]
    seen_keys = set()
    firsts = [f for f in unknown if not (f['key'] in seen_keys or seen_keys.add(f['key']))]     # one per key first
    unknown = firsts + [f for f in unknown if not any(f is g for g in firsts)]
    for f in unknown[:5]:
        chk.violation(f['msg'], {'key': f['key'], 'case': f['case'], 'replay_cmd': './check C20 --replay <this file>'}, True)
    if not unknown and (broken or disagreements):
        chk.violation('proof obligation or correspondence no longer checks: ' + '; '.join(broken[:3] + [d['msg'][:200] for d in disagreements[:2]]),
                      {'broken_obligations': broken, 'disagreements': disagreements[:10]}, False)
    chk.coverage['failing_inputs'] = len(fails)
    return chk.finish()


def same_group(group, fail, sc=None, stats=None):
    """products of one scene / projection / bounds / pad / depth must have identical pixels and the same plane.
    Pixels whose source coordinate is within eps of a tie of the SPECIFICATION (half-integer, hull edge) are not
    decided.  A difference at a pixel that sits on an integer source coordinate, where both products hold a pixel
    numpy.digitize can select there, is the digitize defect showing as block dependence (rounding noise of the
    projection decides between line k and k+1)."""
    group = [g for g in group if g is not None]
    if len(group) < 2:
        return
    c0, p0 = group[0]
    pl0 = sidd_plane(p0['sidd'])
    for c, p in group[1:]:
        ref = {'version': c0['version'], 'block': c0['block']}
        if p['img'].shape != p0['img'].shape:
            fail('blocks:product-shape-differs', f'product of version {c["version"]} / block {c["block"]} has shape {p["img"].shape}, '
                 f'version {c0["version"]} / block {c0["block"]} has {p0["img"].shape}', dict(c, reference=ref))
        elif not numpy.array_equal(p['img'], p0['img']):
            w = numpy.argwhere(p['img'] != p0['img'])
            key = 'blocks:product-differs' if c['block'] != c0['block'] else 'versions:pixels-differ'
            unexplained, digit = [], []
            if sc is not None:
                pts = w.astype('float64')
                _, pix, _, _ = source_coords(sc, p0['sidd'], pts)
                cls, nr, nc = classify(sc, pix[:, 0], pix[:, 1])
                rem = p0['remap'](sc.amp).astype('int64')
                for k in range(len(w)):
                    if cls[k] == 0:
                        if stats is not None:
                            stats['undecided_block_differences'] = stats.get('undecided_block_differences', 0) + 1
                        continue
                    x, y = pix[k]
                    on_int = abs(x - round(x)) < sc.eps or abs(y - round(y)) < sc.eps
                    cand = set()
                    for ex in (-sc.eps, sc.eps):
                        for ey in (-sc.eps, sc.eps):
                            a, b = int(math.floor(x + ex)) + 1, int(math.floor(y + ey)) + 1
                            if 0 <= a < sc.rows and 0 <= b < sc.cols:
                                cand.add(int(rem[a, b]))
                    va, vb = int(p0['img'][tuple(w[k])]), int(p['img'][tuple(w[k])])
                    (digit if (on_int and va in cand and vb in cand) else unexplained).append((w[k].tolist(), [float(x), float(y)], va, vb))
            else:
                unexplained = [(t.tolist(), None, int(p0['img'][tuple(t)]), int(p['img'][tuple(t)])) for t in w]
            if digit:
                e = digit[0]
                fail(KEY_NN, f'product depends on the block size: version {c["version"]} / block {c["block"]} vs version {c0["version"]} / block {c0["block"]}: '
                     f'{len(digit)} pixels differ, all on an integer source coordinate where numpy.digitize jumps from one line to the next, e.g. product pixel {e[0]} '
                     f'at source coordinate {e[1]}: {e[2]} vs {e[3]}', dict(c, reference=ref, pixel={'product_pixel': e[0]}))
            if unexplained:
                e = unexplained[0]
                fail(key, f'product of version {c["version"]} / block {c["block"]} differs from version {c0["version"]} / block {c0["block"]}: {len(unexplained)} pixels differ, '
                     f'first at {e[0]} (source coordinate {e[1]}): {e[2]} vs {e[3]}', dict(c, reference=ref, pixel={'product_pixel': e[0]}))
        pl = sidd_plane(p['sidd'])
        for k in pl0:
            if not numpy.allclose(pl[k], pl0[k], rtol=1e-12, atol=1e-9):
                fail('versions:metadata-differs', f'PlaneProjection {k}: {pl[k].tolist()} (version {c["version"]}) vs {pl0[k].tolist()} (version {c0["version"]})',
                     dict(c, reference=ref))


def replay(path):
    """re-creates the recorded product on sarpy alone and prints what the recorded pixel holds"""
    logging.disable(logging.CRITICAL)
    rec = json.load(open(path))
    print(rec.get('what', '')[:900])
    case = rec.get('case')
    if not case or 'scene' not in case:
        if case and case.get('kind') == 'nn-array':
            print(json.dumps(case)[:3000])
        else:
            print(json.dumps(rec.get('broken_obligations')), json.dumps(rec.get('disagreements'))[:3000])
        return 1
    tmp = tempfile.mkdtemp(dir='/var/tmp')
    try:
        sc = two_image_view(case['scene'], tmp)[0] if 'two_image' in case['scene'] else Scene(case['scene'], tmp)
        try:
            prod = create_product(sc, case['proj'], case['version'], case['block'], case.get('bounds'), case.get('pad'), case.get('depth', 16), tmp)
        except Exception as ex:
            print('create_detected_image_sidd raised', type(ex).__name__, ex)
            return 1
        img, sidd = prod['img'], prod['sidd']
        print('product', img.shape, img.dtype, 'footprint', sidd.Measurement.PixelFootprint.Row, sidd.Measurement.PixelFootprint.Col, type(sidd).__module__)
        px = case.get('pixel')
        if px:
            i, j = px['product_pixel']
            pts = numpy.array([[float(i), float(j)]])
            g, pix, g2, pix2 = source_coords(sc, sidd, pts)
            nr, nc = int(math.floor(pix[0, 0] + 0.5)), int(math.floor(pix[0, 1] + 0.5))
            rem = prod['remap'](sc.amp)
            print(f'product pixel ({i}, {j}) -> ground {g[0].tolist()} -> source coordinate {pix[0].tolist()}; nearest source pixel ({nr}, {nc}) '
                  f'remaps to {int(rem[min(max(nr, 0), sc.rows - 1), min(max(nc, 0), sc.cols - 1)])}; product holds {int(img[i, j])}'
                  f' (source pixel code = 1 + row*{sc.K} + col)')
        sc.close()
    finally:
        shutil.rmtree(tmp, ignore_errors=True)
    return 1
