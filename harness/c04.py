"""C04 — image-to-ground and ground-to-image projection obey the SICD projection model.

proof side : lean/SarpyModel/Props/C04.lean over the reals: the point `_image_to_ground_plane_perform` builds lies on the
             plane, at range R from the ARP and has range rate Rdot (under explicit non-degeneracy hypotheses);
             pointwise => batch / block / order independent; exit conditions of the two iterations.
tie        : correspondence at Float: the same Lean definitions (Spec.Proj) run on IEEE doubles (bit-exact transfer)
             and are compared with sarpy (`_image_to_ground_plane_perform`, `COAProjection.projection`,
             `image_to_ground_plane`) on synthetic SICD/SIDD structures of every image-formation branch.
search     : direct oracle on the implementation, independent of sarpy's projection code: own polynomial evaluation
             of COA time / ARP / VARP, own transcription of the SICD Volume 3 R/Rdot equations for each branch, own
             WGS-84 geodetic height; surface membership, contour membership, look side, round trip, invariance under
             array shape / batch / block size / order, wrapper agreement.
"""
import copy
import json
import math
import os
import struct

import numpy

from common import Check, Driver, Infra, sarpy_guard, REPO

DEFAULTS_REQUIRED = ['fill_explicit', 'fill_explicit_zero', 'fill_absent', 'fill_eq_default_iff', 'fillTruthy_differs_iff',
                     'gen_hae0_fill', 'gen_gref_fill', 'gen_ugpn_fill', 'gen_hae0_explicit']
REQUIRED = ['plane_point_on_plane', 'plane_point_range_sq', 'plane_point_range', 'plane_point_rdot',
            'planePoint_eq_some', 'imageToPlane_on_contour', 'coa_pointwise', 'batch_append', 'batch_perm',
            'batch_getElem', 'blocks_flatten', 'blockwise_eq_map', 'doWhile_spec', 'hae_exit_bound',
            'hae_iterate_on_contour', 'hae_pointwise_given_iterations', 'g2i_exit_bound', 'planePoint_some_masks',
            'pfa_rdot_is_time_derivative', 'inca_rdot_is_time_derivative', 'inca_consistent', 'ipp_on_own_contour',
            'ex_nondegenerate', 'look_zero_counterexample',
            'coaDefine_override', 'coaDefine_fresh', 'coaDefine_keep', 'coaRun_last_override', 'coaRun_snoc_keep', 'coaRun_mem', 'coaRun_isSome', 'coaUsed_after_method']

ALARM_M = 1e-4        # metres: surface / contour residual
ALARM_PIX = 1e-3      # pixels: round trip
LOG_M = 1e-6          # inside the margin band: logged, not alarmed
IDENT = 2e-8          # metres: "identical" across shapes / batches / blocks / order (1 ulp of an ECF coordinate = 9.3e-10 m)
IDENT_PIX = 5e-8      # pixels: the same for image coordinates

# ---------------------------------------------------------------------------------------------------------------
# independent numerics (no sarpy): WGS-84, polynomials

WGS_A = 6378137.0
WGS_F = 1.0 / 298.257223563
WGS_B = WGS_A * (1.0 - WGS_F)
WGS_E2 = WGS_F * (2.0 - WGS_F)


def horner(c, x):
    x = numpy.asarray(x, dtype='float64')
    out = numpy.zeros_like(x)
    for ck in list(c)[::-1]:
        out = out * x + ck
    return out


def pder(c):
    c = list(c)
    return [k * c[k] for k in range(1, len(c))] or [0.0]


def eval2d(C, x, y):
    """sum C[i][j] x^i y^j"""
    C = numpy.asarray(C, dtype='float64')
    x = numpy.asarray(x, dtype='float64')
    out = numpy.zeros_like(x)
    for i in range(C.shape[0] - 1, -1, -1):
        out = out * x + horner(C[i], y)
    return out


def geod_to_ecf(lat, lon, h):
    lat, lon = numpy.deg2rad(lat), numpy.deg2rad(lon)
    n = WGS_A / numpy.sqrt(1.0 - WGS_E2 * numpy.sin(lat) ** 2)
    return numpy.stack([(n + h) * numpy.cos(lat) * numpy.cos(lon), (n + h) * numpy.cos(lat) * numpy.sin(lon),
                        (n * (1.0 - WGS_E2) + h) * numpy.sin(lat)], axis=-1)


def ecf_to_geod(p):
    """fixed-point iteration on the geodetic latitude (independent of sarpy's closed form); returns lat, lon (deg), h (m)"""
    p = numpy.asarray(p, dtype='float64')
    x, y, z = p[..., 0], p[..., 1], p[..., 2]
    rho = numpy.hypot(x, y)
    lat = numpy.arctan2(z, rho * (1.0 - WGS_E2))
    h = numpy.zeros_like(rho)
    for _ in range(12):
        s = numpy.sin(lat)
        n = WGS_A / numpy.sqrt(1.0 - WGS_E2 * s * s)
        h = rho * numpy.cos(lat) + z * s - WGS_A * numpy.sqrt(1.0 - WGS_E2 * s * s)
        lat = numpy.arctan2(z * (n + h), rho * (n * (1.0 - WGS_E2) + h))
    s = numpy.sin(lat)
    h = rho * numpy.cos(lat) + z * s - WGS_A * numpy.sqrt(1.0 - WGS_E2 * s * s)
    return numpy.rad2deg(lat), numpy.rad2deg(numpy.arctan2(y, x)), h


def ellipsoid_gradient_normal(p):
    v = numpy.asarray(p, dtype='float64') / numpy.array([WGS_A ** 2, WGS_A ** 2, WGS_B ** 2])
    return v / numpy.linalg.norm(v)


def unit(v):
    v = numpy.asarray(v, dtype='float64')
    return v / numpy.linalg.norm(v)


def rot_y(b):
    c, s = math.cos(b), math.sin(b)
    return numpy.array([[c, 0, s], [0, 1, 0], [-s, 0, c]])


def rot_z(b):
    c, s = math.cos(b), math.sin(b)
    return numpy.array([[c, -s, 0], [s, c, 0], [0, 0, 1]])


# ---------------------------------------------------------------------------------------------------------------
# scene / metadata synthesis.  A `meta` dict holds plain numbers; the sarpy structure is built from it, the oracle
# reads only the dict.

def arp_at(meta, t):
    t = numpy.asarray(t, dtype='float64')
    return numpy.stack([horner(meta['arp'][k], t) for k in range(3)], axis=-1)


def varp_at(meta, t):
    t = numpy.asarray(t, dtype='float64')
    return numpy.stack([horner(pder(meta['arp'][k]), t) for k in range(3)], axis=-1)


def aarp_at(meta, t):
    t = numpy.asarray(t, dtype='float64')
    return numpy.stack([horner(pder(pder(meta['arp'][k])), t) for k in range(3)], axis=-1)


def place_scp(arp, varp, look, off_nadir, squint, hae):
    """a scene point seen from `arp` at the given off-nadir and squint angles, on the look side, at height hae"""
    r = unit(arp)
    v = unit(varp)
    left = unit(numpy.cross(r, v))
    down = -unit(r - numpy.dot(r, v) * v)
    d = math.cos(off_nadir) * down + math.sin(off_nadir) * (math.cos(squint) * look * left + math.sin(squint) * v)
    # intersect with the ellipsoid of semi-axes (a+h, b+h), then refine the height along the local normal
    sa, sb = WGS_A + hae, WGS_B + hae
    w = numpy.array([1 / sa, 1 / sa, 1 / sb])
    A, D = arp * w, d * w
    qa, qb, qc = numpy.dot(D, D), 2 * numpy.dot(A, D), numpy.dot(A, A) - 1
    disc = qb * qb - 4 * qa * qc
    if disc <= 0:
        return None
    s = (-qb - math.sqrt(disc)) / (2 * qa)
    p = arp + s * d
    lat, lon, _ = ecf_to_geod(p)
    return geod_to_ecf(lat, lon, hae), (float(lat), float(lon), float(hae))


def scene(base_arp, rng, kind, look, mirror=False, beta=0.0, lam=0.0, t_ref=1.68, off_nadir=None, squint=None,
          hae=None, tcoa_kind='const', subimage=False, ground_plane=False):
    """metadata for one synthetic structure of the given image formation kind"""
    M = rot_z(lam) @ rot_y(beta)
    if mirror:
        M = numpy.diag([1.0, 1.0, -1.0]) @ M
    arp = M @ numpy.asarray(base_arp, dtype='float64')            # (3, n) coefficient arrays
    meta = {'kind': kind, 'arp': arp, 'look_requested': look}
    off_nadir = math.radians(rng.uniform(25, 55)) if off_nadir is None else off_nadir
    squint = math.radians(rng.uniform(-8, 8)) if squint is None else squint
    hae = rng.choice([0.0, rng.uniform(-100, 3000)]) if hae is None else hae
    a0, v0 = arp_at(meta, t_ref), varp_at(meta, t_ref)
    got = place_scp(a0, v0, look, off_nadir, squint, hae)
    if got is None:
        return None
    scp, llh = got
    meta.update(scp=scp, scp_llh=llh, t_ref=t_ref, arp_scp=a0, varp_scp=v0, aarp_scp=aarp_at(meta, t_ref))
    meta['look'] = int(numpy.sign(numpy.dot(numpy.cross(a0, v0), scp - a0)))
    ulos = unit(scp - a0)
    uspz = unit(meta['look'] * numpy.cross(v0, ulos))
    etp = ellipsoid_gradient_normal(scp)
    nrows, ncols = rng.choice([(1494, 1723), (1000, 1200), (2048, 900)])
    ss = (rng.uniform(0.5, 1.2), rng.uniform(0.5, 1.2))
    scp_pixel = (nrows // 2, ncols // 2)
    if rng.random() < 0.5:
        scp_pixel = (int(nrows * rng.uniform(0.2, 0.8)), int(ncols * rng.uniform(0.2, 0.8)))   # shifted SCP pixel
    first = (rng.randint(1, 400), rng.randint(1, 400)) if subimage else (0, 0)
    meta.update(nrows=nrows, ncols=ncols, ss=ss, scp_pixel=scp_pixel, first=first)
    T = 3.4668291025146964

    if kind == 'PFA':
        ipn = etp if ground_plane else uspz
        fpn = etp
        meta.update(ipn=ipn, fpn=fpn, image_plane='GROUND' if ground_plane else 'SLANT', grid_type='RGAZIM')
        ref = a0 + (numpy.dot(scp - a0, ipn) / numpy.dot(fpn, ipn)) * fpn
        urow = unit(scp - ref)
        ucol = numpy.cross(ipn, urow)
        times = numpy.linspace(0, T, 15)
        pos = arp_at(meta, times)
        ipp = pos + numpy.outer((scp - pos).dot(ipn) / numpy.dot(fpn, ipn), fpn)
        ip_x = unit(ref - scp)
        ip_y = numpy.cross(ipn, ip_x)
        rg = ipp - scp
        rg /= numpy.linalg.norm(rg, axis=1)[:, None]
        ka = numpy.arctan2(rg.dot(ip_y), rg.dot(ip_x))
        rv = pos - scp
        rv /= numpy.linalg.norm(rv, axis=1)[:, None]
        sg, sgi = rv.dot(fpn), rg.dot(fpn)
        ksf = numpy.sqrt((1 - sg * sg) / (1 - sgi * sgi))
        meta['polar_ang'] = numpy.polynomial.polynomial.polyfit(times, ka, 5)
        meta['ksf'] = numpy.polynomial.polynomial.polyfit(ka, ksf, 5)
        meta.update(urow=urow, ucol=ucol)
    elif kind == 'RGAZCOMP':
        uaz = numpy.cross(uspz, ulos)
        dca = math.acos(numpy.dot(unit(v0), ulos))
        meta.update(urow=ulos, ucol=uaz, az_sf=-meta['look'] * math.sin(dca) / numpy.linalg.norm(scp - a0),
                    image_plane='SLANT', grid_type='RGAZIM')
    elif kind == 'INCA':
        # SCP at closest approach: refine t_ca so that (SCP - ARP(t)) . VARP(t) = 0
        def t_ca_of(p, t):
            for _ in range(30):
                a, v, acc = arp_at(meta, t), varp_at(meta, t), aarp_at(meta, t)
                f = numpy.dot(p - a, v)
                df = -numpy.dot(v, v) + numpy.dot(p - a, acc)
                t = t - f / df
            return float(t)
        tca0 = t_ca_of(scp, t_ref)
        a1, v1 = arp_at(meta, tca0), varp_at(meta, tca0)
        urg = unit(scp - a1)
        lk = numpy.sign(numpy.dot(numpy.cross(unit(a1), unit(v1)), urg))
        uspz1 = unit(-lk * numpy.cross(urg, unit(v1)))
        uaz = numpy.cross(uspz1, urg)
        azs = numpy.linspace(-1500, 1500, 9)
        tcas = numpy.array([t_ca_of(scp + az * uaz, tca0) for az in azs])
        time_ca = numpy.polynomial.polynomial.polyfit(azs, tcas, 2)
        time_ca[0] = tcas[4]
        rgs = numpy.linspace(-1500, 1500, 5)
        rows, vals = [], []
        for rgv in rgs:
            for az in azs[::2]:
                p = scp + rgv * urg + az * uaz
                tc = t_ca_of(p, tca0)
                a, v, acc = arp_at(meta, tc), varp_at(meta, tc), aarp_at(meta, tc)
                rows.append([1.0, az, rgv, rgv * az])
                vals.append((numpy.dot(v, v) + numpy.dot(a - p, acc)) / numpy.dot(v, v))
        sol = numpy.linalg.lstsq(numpy.array(rows), numpy.array(vals), rcond=None)[0]
        meta.update(urow=urg, ucol=uaz, r_ca_scp=float(numpy.linalg.norm(scp - a1)), time_ca=time_ca,
                    drsf=numpy.array([[sol[0], sol[1]], [sol[2], sol[3]]]), image_plane='SLANT', grid_type='RGZERO')
        meta['t_ref'] = tca0
    elif kind in ('XRGYCR', 'XCTYAT', 'PLANE'):
        if kind == 'XRGYCR':
            urow, ucol = ulos, numpy.cross(uspz, ulos)
            plane = 'SLANT'
        elif kind == 'XCTYAT':
            uyat = -meta['look'] * unit(v0)
            uxct = unit(numpy.cross(uyat, uspz))
            urow, ucol = uxct, numpy.cross(uspz, uxct)
            plane = 'SLANT'
        else:
            east = unit(numpy.cross([0.0, 0.0, 1.0], etp))
            north = numpy.cross(etp, east)
            a1 = rng.uniform(0, 2 * math.pi)
            a2 = a1 - math.radians(rng.uniform(75, 105))       # rows x cols = up; not perpendicular in general
            urow = math.cos(a1) * north + math.sin(a1) * east
            ucol = math.cos(a2) * north + math.sin(a2) * east
            plane = 'GROUND'
        meta.update(urow=urow, ucol=ucol, image_plane=plane, grid_type=kind)
    else:
        raise ValueError(kind)

    t0 = meta['t_ref']
    if tcoa_kind == 'const':
        tcoa = numpy.array([[t0]])
    elif tcoa_kind == 'linear':
        tcoa = numpy.array([[t0, rng.uniform(-2e-4, 2e-4)], [rng.uniform(-2e-5, 2e-5), 0.0]])
    else:
        tcoa = numpy.array([[t0 + rng.uniform(-0.8, 0.8), rng.uniform(-2e-4, 2e-4), rng.uniform(-2e-8, 2e-8)],
                            [rng.uniform(-2e-5, 2e-5), rng.uniform(-1e-8, 1e-8), 0.0]])
    if mirror:
        tcoa[:, 1::2] *= -1.0      # the mirrored scene has its column axis reversed
    if kind == 'INCA':
        # zero-Doppler grid: COA time follows the closest-approach time, plus a squint offset
        tc = numpy.zeros((2, 3))
        tc[0, :len(meta['time_ca'])] = meta['time_ca']
        tc[0, 0] += {'const': 0.0, 'linear': rng.uniform(-0.3, 0.3)}.get(tcoa_kind, rng.uniform(-0.8, 0.8))
        tc[1, 0] = 0.0 if tcoa_kind == 'const' else rng.uniform(-2e-5, 2e-5)
        tcoa = tc
    meta['tcoa'] = tcoa
    meta['tcoa_kind'] = tcoa_kind
    return meta


def build_sicd(base, meta):
    """a SICDType carrying exactly the numbers of `meta`"""
    from sarpy.io.complex.sicd_elements.blocks import Poly1DType, Poly2DType, XYZPolyType, XYZType
    from sarpy.io.complex.sicd_elements.PFA import PFAType
    from sarpy.io.complex.sicd_elements.RgAzComp import RgAzCompType
    from sarpy.io.complex.sicd_elements.RMA import RMAType, INCAType
    s = base.copy()
    s.ImageData.NumRows, s.ImageData.NumCols = int(meta['nrows']), int(meta['ncols'])
    s.ImageData.FirstRow, s.ImageData.FirstCol = int(meta['first'][0]), int(meta['first'][1])
    s.ImageData.FullImage.NumRows = int(meta['nrows'] + meta['first'][0])
    s.ImageData.FullImage.NumCols = int(meta['ncols'] + meta['first'][1])
    s.ImageData.SCPPixel.Row, s.ImageData.SCPPixel.Col = int(meta['scp_pixel'][0]), int(meta['scp_pixel'][1])
    s.ImageData.ValidData = None
    s.GeoData.SCP.ECF = XYZType.from_array(meta['scp'])
    s.GeoData.SCP.LLH.Lat, s.GeoData.SCP.LLH.Lon, s.GeoData.SCP.LLH.HAE = meta['scp_llh']
    s.Grid.Type = meta['grid_type']
    s.Grid.ImagePlane = meta['image_plane']
    s.Grid.TimeCOAPoly = Poly2DType(Coefs=meta['tcoa'])
    s.Grid.Row.UVectECF = XYZType.from_array(meta['urow'])
    s.Grid.Col.UVectECF = XYZType.from_array(meta['ucol'])
    s.Grid.Row.SS, s.Grid.Col.SS = float(meta['ss'][0]), float(meta['ss'][1])
    s.Position.ARPPoly = XYZPolyType(X=meta['arp'][0], Y=meta['arp'][1], Z=meta['arp'][2])
    s.SCPCOA.SCPTime = float(meta['t_ref'])
    s.SCPCOA.ARPPos = XYZType.from_array(meta['arp_scp'])
    s.SCPCOA.ARPVel = XYZType.from_array(meta['varp_scp'])
    s.SCPCOA.ARPAcc = XYZType.from_array(meta['aarp_scp'])
    s.SCPCOA.SideOfTrack = 'L' if meta['look'] > 0 else 'R'
    s.PFA = None
    s.RMA = None
    s.RgAzComp = None
    k = meta['kind']
    if k == 'PFA':
        s.ImageFormation.ImageFormAlgo = 'PFA'
        s.PFA = PFAType(FPN=XYZType.from_array(meta['fpn']), IPN=XYZType.from_array(meta['ipn']),
                        PolarAngRefTime=float(meta['t_ref']), PolarAngPoly=Poly1DType(Coefs=meta['polar_ang']),
                        SpatialFreqSFPoly=Poly1DType(Coefs=meta['ksf']), Krg1=66.0, Krg2=67.0, Kaz1=-0.4, Kaz2=0.4)
    elif k == 'RGAZCOMP':
        s.ImageFormation.ImageFormAlgo = 'RGAZCOMP'
        s.RgAzComp = RgAzCompType(AzSF=float(meta['az_sf']), KazPoly=Poly1DType(Coefs=[0.0, 1.0]))
    elif k == 'INCA':
        s.ImageFormation.ImageFormAlgo = 'RMA'
        s.RMA = RMAType(RMAlgoType='OMEGA_K', ImageType='INCA',
                        INCA=INCAType(TimeCAPoly=Poly1DType(Coefs=meta['time_ca']), R_CA_SCP=float(meta['r_ca_scp']),
                                      FreqZero=1e10, DRateSFPoly=Poly2DType(Coefs=meta['drsf'])))
    else:
        s.ImageFormation.ImageFormAlgo = 'OTHER'
    return s


def meta_from_sicd(s):
    """metadata of a parsed example structure as plain numbers (attribute reads only)"""
    m = {'arp': numpy.array([numpy.array(s.Position.ARPPoly.X.Coefs, dtype='float64'),
                             numpy.array(s.Position.ARPPoly.Y.Coefs, dtype='float64'),
                             numpy.array(s.Position.ARPPoly.Z.Coefs, dtype='float64')]),
         'tcoa': numpy.array(s.Grid.TimeCOAPoly.Coefs, dtype='float64'),
         'scp': numpy.array([s.GeoData.SCP.ECF.X, s.GeoData.SCP.ECF.Y, s.GeoData.SCP.ECF.Z], dtype='float64'),
         'scp_llh': (s.GeoData.SCP.LLH.Lat, s.GeoData.SCP.LLH.Lon, s.GeoData.SCP.LLH.HAE),
         'scp_pixel': (s.ImageData.SCPPixel.Row, s.ImageData.SCPPixel.Col),
         'first': (s.ImageData.FirstRow, s.ImageData.FirstCol),
         'nrows': s.ImageData.NumRows, 'ncols': s.ImageData.NumCols,
         'ss': (s.Grid.Row.SS, s.Grid.Col.SS),
         'urow': numpy.array([s.Grid.Row.UVectECF.X, s.Grid.Row.UVectECF.Y, s.Grid.Row.UVectECF.Z]),
         'ucol': numpy.array([s.Grid.Col.UVectECF.X, s.Grid.Col.UVectECF.Y, s.Grid.Col.UVectECF.Z]),
         'grid_type': s.Grid.Type, 'image_plane': s.Grid.ImagePlane,
         'look': 1 if s.SCPCOA.SideOfTrack == 'L' else -1,
         't_ref': s.SCPCOA.SCPTime, 'tcoa_kind': 'const',
         'arp_scp': numpy.array([s.SCPCOA.ARPPos.X, s.SCPCOA.ARPPos.Y, s.SCPCOA.ARPPos.Z]),
         'varp_scp': numpy.array([s.SCPCOA.ARPVel.X, s.SCPCOA.ARPVel.Y, s.SCPCOA.ARPVel.Z])}
    if s.Grid.Type == 'RGAZIM' and s.ImageFormation.ImageFormAlgo == 'PFA':
        m.update(kind='PFA', polar_ang=numpy.array(s.PFA.PolarAngPoly.Coefs), ksf=numpy.array(s.PFA.SpatialFreqSFPoly.Coefs),
                 fpn=numpy.array([s.PFA.FPN.X, s.PFA.FPN.Y, s.PFA.FPN.Z]), ipn=numpy.array([s.PFA.IPN.X, s.PFA.IPN.Y, s.PFA.IPN.Z]))
    elif s.Grid.Type in ('XRGYCR', 'XCTYAT', 'PLANE'):
        m.update(kind=s.Grid.Type)
    else:
        raise Infra('unexpected example structure type ' + str(s.Grid.Type))
    return m


def sidd_meta(sidd, rng, mirror=False, lam=0.0, tcoa_kind='const', offset=False):
    """metadata of a SIDD plane projection built on the example product (optionally mirrored / rotated about the
    polar axis, both exact symmetries of WGS-84)"""
    pp = sidd.Measurement.PlaneProjection
    M = rot_z(lam)
    if mirror:
        M = numpy.diag([1.0, 1.0, -1.0]) @ M
    arp = M @ numpy.array([numpy.array(sidd.Measurement.ARPPoly.X.Coefs), numpy.array(sidd.Measurement.ARPPoly.Y.Coefs),
                           numpy.array(sidd.Measurement.ARPPoly.Z.Coefs)], dtype='float64')
    srp = M @ numpy.array([pp.ReferencePoint.ECEF.X, pp.ReferencePoint.ECEF.Y, pp.ReferencePoint.ECEF.Z])
    ur = M @ numpy.array([pp.ProductPlane.RowUnitVector.X, pp.ProductPlane.RowUnitVector.Y, pp.ProductPlane.RowUnitVector.Z])
    uc = M @ numpy.array([pp.ProductPlane.ColUnitVector.X, pp.ProductPlane.ColUnitVector.Y, pp.ProductPlane.ColUnitVector.Z])
    if mirror:
        uc = -uc      # keep rows x cols pointing up
    t0 = float(numpy.array(pp.TimeCOAPoly.Coefs)[0, 0])
    if tcoa_kind == 'const':
        tcoa = numpy.array([[t0]])
    else:
        tcoa = numpy.array([[t0 + rng.uniform(-0.5, 0.5), rng.uniform(-2e-4, 2e-4)], [rng.uniform(-2e-5, 2e-5), rng.uniform(-1e-8, 1e-8)]])
    ref_pix = (pp.ReferencePoint.Point.Row, pp.ReferencePoint.Point.Col)
    if offset:
        ref_pix = (ref_pix[0] + rng.randint(-300, 300), ref_pix[1] + rng.randint(-300, 300))
    m = {'kind': 'SIDD', 'arp': arp, 'tcoa': tcoa, 'scp': srp, 'scp_pixel': ref_pix, 'first': (0, 0),
         'nrows': sidd.Measurement.PixelFootprint.Row, 'ncols': sidd.Measurement.PixelFootprint.Col,
         'ss': (pp.SampleSpacing.Row, pp.SampleSpacing.Col), 'urow': ur, 'ucol': uc, 'tcoa_kind': tcoa_kind,
         'grid_type': 'SIDD', 'image_plane': 'GROUND'}
    lat, lon, h = ecf_to_geod(srp)
    m['scp_llh'] = (float(lat), float(lon), float(h))
    tr = float(eval2d(tcoa, numpy.float64(ref_pix[0]), numpy.float64(ref_pix[1])))
    m['t_ref'] = tr
    m['arp_scp'], m['varp_scp'] = arp_at(m, tr), varp_at(m, tr)
    m['look'] = int(numpy.sign(numpy.dot(numpy.cross(m['arp_scp'], m['varp_scp']), srp - m['arp_scp'])))
    return m


def build_sidd(base, meta):
    from sarpy.io.product.sidd2_elements.blocks import Poly2DType, XYZPolyType, XYZType
    s = base.copy()
    pp = s.Measurement.PlaneProjection
    s.Measurement.ARPPoly = XYZPolyType(X=meta['arp'][0], Y=meta['arp'][1], Z=meta['arp'][2])
    pp.ReferencePoint.ECEF = XYZType.from_array(meta['scp'])
    pp.ReferencePoint.Point.Row, pp.ReferencePoint.Point.Col = float(meta['scp_pixel'][0]), float(meta['scp_pixel'][1])
    pp.TimeCOAPoly = Poly2DType(Coefs=meta['tcoa'])
    pp.ProductPlane.RowUnitVector = XYZType.from_array(meta['urow'])
    pp.ProductPlane.ColUnitVector = XYZType.from_array(meta['ucol'])
    return s


# ---------------------------------------------------------------------------------------------------------------
# the oracle: SICD Volume 3 (Image Projections Description), written from the equations, own arithmetic

def ric_matrix(meta, frame):
    """columns R, I, C of the RIC frame at the SCP COA (Volume 3, adjustable parameters)"""
    r0, v0 = numpy.asarray(meta['arp_scp'], dtype='float64'), numpy.asarray(meta['varp_scp'], dtype='float64')
    if frame == 'RIC_ECI':
        v0 = v0 + numpy.cross([0.0, 0.0, 7292115.1467e-11], r0)
    r = unit(r0)
    c = unit(numpy.cross(r, v0))
    i = numpy.cross(c, r)
    return numpy.stack([r, i, c], axis=-1)


def oracle_rrdot(meta, pix, adj=None):
    """pixel -> COA time, ARP, VARP, R, Rdot by the Volume 3 equations of the structure's image formation branch"""
    pix = numpy.asarray(pix, dtype='float64').reshape(-1, 2)
    k = meta['kind']
    if k == 'SIDD':
        t = eval2d(meta['tcoa'], pix[:, 0], pix[:, 1])
    else:
        xrow = meta['ss'][0] * (pix[:, 0] - (meta['scp_pixel'][0] - meta['first'][0]))
        ycol = meta['ss'][1] * (pix[:, 1] - (meta['scp_pixel'][1] - meta['first'][1]))
        t = eval2d(meta['tcoa'], xrow, ycol)
    arp, varp = arp_at(meta, t), varp_at(meta, t)
    scp = numpy.asarray(meta['scp'], dtype='float64')

    def scp_rrdot():
        d = arp - scp
        r = numpy.sqrt((d * d).sum(axis=1))
        return r, (varp * d).sum(axis=1) / r

    if k == 'PFA':
        rs, rds = scp_rrdot()
        th = horner(meta['polar_ang'], t)
        dth = horner(pder(meta['polar_ang']), t)
        ksf = horner(meta['ksf'], th)
        dksf = horner(pder(meta['ksf']), th)
        dphi_dka = xrow * numpy.cos(th) + ycol * numpy.sin(th)
        dphi_dkc = -xrow * numpy.sin(th) + ycol * numpy.cos(th)
        r = rs + ksf * dphi_dka
        rdot = rds + (dksf * dphi_dka + ksf * dphi_dkc) * dth
    elif k == 'RGAZCOMP':
        rs, rds = scp_rrdot()
        r = rs + xrow
        rdot = rds - numpy.sqrt((varp * varp).sum(axis=1)) * meta['az_sf'] * ycol
    elif k == 'INCA':
        r_ca = meta['r_ca_scp'] + xrow
        t_ca = horner(meta['time_ca'], ycol)
        vca = varp_at(meta, t_ca)
        vm2 = (vca * vca).sum(axis=1)
        drsf = eval2d(meta['drsf'], xrow, ycol)
        dt = t - t_ca
        r = numpy.sqrt(r_ca * r_ca + drsf * vm2 * dt * dt)
        rdot = drsf * vm2 * dt / r
    else:
        if k == 'SIDD':
            ipp = scp + numpy.outer((pix[:, 0] - meta['scp_pixel'][0]) * meta['ss'][0], meta['urow']) \
                + numpy.outer((pix[:, 1] - meta['scp_pixel'][1]) * meta['ss'][1], meta['ucol'])
        else:
            ipp = scp + numpy.outer(xrow, meta['urow']) + numpy.outer(ycol, meta['ucol'])
        d = arp - ipp
        r = numpy.sqrt((d * d).sum(axis=1))
        rdot = (varp * d).sum(axis=1) / r
    if adj:
        da, dv = numpy.asarray(adj.get('delta_arp', [0, 0, 0.]), dtype='float64'), numpy.asarray(adj.get('delta_varp', [0, 0, 0.]), dtype='float64')
        fr = adj.get('adj_params_frame', 'ECF')
        if fr != 'ECF':
            Mx = ric_matrix(meta, fr)
            da, dv = Mx @ da, Mx @ dv
        arp = arp + da
        varp = varp + dv
        r = r + float(adj.get('range_bias', 0.0) or 0.0)
    return t, arp, varp, r, rdot


def contour_residuals(p, arp, varp, r, rdot):
    """(range residual, range-rate residual converted to metres of cross-range displacement)"""
    d = p - arp
    rng_ = numpy.sqrt((d * d).sum(axis=1))
    rr = -(varp * d).sum(axis=1) / rng_
    vm = numpy.sqrt((varp * varp).sum(axis=1))
    return rng_ - r, (rr - rdot) * rng_ / vm


def pixel_grid(meta, rng, n_side=14):
    """~n_side^2 pixels on a jittered grid over the image and 50 % beyond it, plus the corners and the SCP pixel"""
    nr, nc = meta['nrows'], meta['ncols']
    rows = numpy.linspace(-0.5 * nr, 1.5 * nr, n_side)
    cols = numpy.linspace(-0.5 * nc, 1.5 * nc, n_side)
    g = numpy.array([[r_ + rng.uniform(-0.4, 0.4) * nr / n_side, c_ + rng.uniform(-0.4, 0.4) * nc / n_side] for r_ in rows for c_ in cols])
    sp = [meta['scp_pixel'][0] - meta['first'][0], meta['scp_pixel'][1] - meta['first'][1]] if meta['kind'] != 'SIDD' else list(meta['scp_pixel'])
    extra = numpy.array([[0, 0], [0, nc - 1], [nr - 1, 0], [nr - 1, nc - 1], sp, [sp[0] + 0.5, sp[1] - 0.25]], dtype='float64')
    return numpy.concatenate([g, extra])


# ---------------------------------------------------------------------------------------------------------------
# Lean driver encoding (bit-exact doubles)

def fb(x):
    return str(struct.unpack('<Q', struct.pack('<d', float(x)))[0])


def bf(s):
    return struct.unpack('<d', struct.pack('<Q', int(s)))[0]


def fl(v):
    v = list(numpy.ravel(v))
    return ','.join(fb(x) for x in v) if v else '-'


def frows(M):
    return ';'.join(fl(r) for r in numpy.atleast_2d(M))


def lean_coa_tokens(meta, adj_ecf=None):
    da, dv, rb = (adj_ecf or ([0, 0, 0.], [0, 0, 0.], 0.0))
    if meta['kind'] == 'SIDD':
        rs, rm, cs, cm = 0.0, 1.0, 0.0, 1.0
    else:
        rs, rm = meta['scp_pixel'][0] - meta['first'][0], meta['ss'][0]
        cs, cm = meta['scp_pixel'][1] - meta['first'][1], meta['ss'][1]
    toks = [frows(meta['tcoa']), fl(meta['arp'][0]), fl(meta['arp'][1]), fl(meta['arp'][2]), fb(rs), fb(rm), fb(cs), fb(cm),
            fl(da), fl(dv), fb(rb)]
    k = meta['kind']
    if k == 'PFA':
        toks += ['pfa', fl(meta['scp']), fl(meta['polar_ang']), fl(meta['ksf'])]
    elif k == 'RGAZCOMP':
        toks += ['rgaz', fl(meta['scp']), fb(meta['az_sf'])]
    elif k == 'INCA':
        toks += ['inca', fb(meta['r_ca_scp']), fl(meta['time_ca']), frows(meta['drsf'])]
    elif k == 'SIDD':
        toks += ['sidd', fl(meta['scp']), fb(meta['scp_pixel'][0]), fb(meta['scp_pixel'][1]),
                 fl(numpy.asarray(meta['urow']) * meta['ss'][0]), fl(numpy.asarray(meta['ucol']) * meta['ss'][1])]
    else:
        toks += ['plane', fl(meta['scp']), fl(meta['urow']), fl(meta['ucol'])]
    return toks


def pts_tok(pix):
    return ';'.join(fb(a) + ',' + fb(b) for a, b in numpy.asarray(pix, dtype='float64').reshape(-1, 2))


def parse_pts(ans):
    out = []
    for t in ans.split(';'):
        out.append([float('nan')] * 3 if t == 'nan' else [bf(x) for x in t.split(',')])
    return numpy.array(out, dtype='float64')


# ---------------------------------------------------------------------------------------------------------------
# case construction

def meta_json(meta):
    out = {}
    for k, v in meta.items():
        out[k] = numpy.asarray(v).tolist() if isinstance(v, (numpy.ndarray, tuple, list)) else (v.item() if hasattr(v, 'item') else v)
    return out


def meta_unjson(d):
    m = dict(d)
    for k in ('arp', 'tcoa', 'scp', 'urow', 'ucol', 'arp_scp', 'varp_scp', 'aarp_scp', 'fpn', 'ipn', 'polar_ang', 'ksf', 'time_ca', 'drsf'):
        if k in m:
            m[k] = numpy.array(m[k], dtype='float64')
    for k in ('scp_pixel', 'first', 'ss', 'scp_llh'):
        if k in m:
            m[k] = tuple(m[k])
    return m


def load_bases():
    from sarpy.io.complex.sicd_elements.SICD import SICDType
    from sarpy.io.product.sidd2_elements.SIDD import SIDDType
    d = os.path.join(REPO, 'tests', 'data')
    return (SICDType.from_xml_file(os.path.join(d, 'example.sicd.xml')),
            SICDType.from_xml_file(os.path.join(d, 'example.sicd.rma.xml')),
            SIDDType.from_xml_file(os.path.join(d, 'example.sidd.xml')))


def structure_of(meta, bases):
    base, rma, sidd = bases
    if meta['kind'] == 'SIDD':
        return build_sidd(sidd, meta)
    if meta.get('example') == 'pfa':
        return base.copy()
    if meta.get('example') == 'rma':
        return rma.copy()
    return build_sicd(base, meta)


def build_cases(rng, tier, bases):
    import random
    base, rma, sidd = bases
    base_arp = meta_from_sicd(base)['arp']
    cases = []
    m = meta_from_sicd(base)
    m['example'] = 'pfa'
    cases.append({'name': 'example.sicd.xml', 'meta': m})
    m = meta_from_sicd(rma)
    m['example'] = 'rma'
    cases.append({'name': 'example.sicd.rma.xml', 'meta': m})
    reps = 1 if tier == 'quick' else 8
    for rep in range(reps):
        for kind in ('PFA', 'RGAZCOMP', 'INCA', 'XRGYCR', 'XCTYAT', 'PLANE'):
            for look in (1, -1):
                kw = dict(beta=rng.uniform(-1.4, 1.4), lam=rng.uniform(-math.pi, math.pi),
                          t_ref=rng.uniform(0.8, 2.6), squint=math.radians(rng.uniform(-35, 35)),
                          tcoa_kind=rng.choice(['const', 'linear', 'quad']), subimage=rng.random() < 0.4,
                          ground_plane=rng.random() < 0.3)
                if rng.random() < 0.15:
                    kw['lam'] = math.pi - 1e-4 * rng.random()      # scene at the antimeridian
                st = rng.getstate()
                mA = None
                for _ in range(20):
                    st = rng.getstate()
                    mA = scene(base_arp, rng, kind, look, mirror=False, **kw)
                    if mA is not None:
                        break
                if mA is None:
                    raise Infra('scene synthesis failed')
                cases.append({'name': f'{kind}/{"L" if mA["look"] > 0 else "R"}/{mA["tcoa_kind"]}/{rep}', 'meta': mA})
                if kind != 'PLANE' and (look == 1 or tier != 'quick'):
                    r2 = random.Random()
                    r2.setstate(st)
                    mB = scene(base_arp, r2, kind, -look, mirror=True, **kw)
                    if mB is not None:
                        mB['mirror_of'] = len(cases) - 1
                        cases.append({'name': f'{kind}/{"L" if mB["look"] > 0 else "R"}/{mB["tcoa_kind"]}/{rep}/mirror', 'meta': mB})
        for mir in (False, True):
            mS = sidd_meta(sidd, rng, mirror=mir, lam=rng.uniform(-math.pi, math.pi) if rep or mir else 0.0,
                           tcoa_kind='const' if (rep == 0 and not mir) else 'lin', offset=bool(rep or mir))
            cases.append({'name': f'SIDD/{"L" if mS["look"] > 0 else "R"}/{mS["tcoa_kind"]}/{rep}', 'meta': mS})
    for c in cases:
        c['structure'] = structure_of(c['meta'], bases)
    return cases


def default_plane(meta):
    """the plane `image_to_ground_plane` uses when gref / ugpn are not given: through the SCP (reference point);
    PFA: focus plane normal; SIDD: normal of the product plane, pointing away from the earth centre; otherwise the
    gradient of the WGS-84 quadratic form at the SCP"""
    scp = numpy.asarray(meta['scp'], dtype='float64')
    if meta['kind'] == 'PFA':
        n = unit(meta['fpn'])
    elif meta['kind'] == 'SIDD':
        n = unit(numpy.cross(meta['urow'], meta['ucol']))
        if numpy.dot(n, scp) < 0:
            n = -n
    else:
        n = ellipsoid_gradient_normal(scp)
    return scp, n


class Recorder:
    def __init__(self):
        self.fails = []          # direct oracle failures (dicts with 'key')
        self.evals = 0
        self.stats = {}
        self.classes = set()
        self.band = {}           # residuals inside the margin band (logged, not alarmed)

    def stat(self, name, value):
        value = float(value)
        if math.isnan(value):
            value = float('inf')
        self.stats[name] = max(self.stats.get(name, 0.0), value)

    def check(self, case, what, values, alarm, key=None, extra=None, log=LOG_M):
        """values: array of residuals; failure if any non-finite or above alarm"""
        v = numpy.abs(numpy.asarray(values, dtype='float64')).ravel()
        worst = float(numpy.max(v)) if v.size else 0.0
        if v.size and not numpy.all(numpy.isfinite(v)):
            worst = float('inf')
        self.stat(what, worst)
        if worst > alarm:
            i = int(numpy.argmax(numpy.where(numpy.isfinite(v), v, numpy.inf)))
            f = {'key': key or what, 'case': case['name'], 'what': what, 'worst': worst, 'alarm': alarm, 'index': i,
                 'msg': f'{case["name"]}: {what}: residual {worst:.3e} exceeds {alarm:.1e}', 'meta': meta_json(case['meta'])}
            if extra:
                f.update(extra)
            self.fails.append(f)
            return False
        if worst > log:
            self.band[what] = max(self.band.get(what, 0.0), worst)
        return True


def surface_and_contour(rec, case, tag, P, pix, adj, surface, key=None, extra=None, alarm=ALARM_M):
    """(1) surface membership, (2) contour membership by the independent R/Rdot, (1b) look side"""
    meta = case['meta']
    t, arp, varp, r, rdot = oracle_rrdot(meta, pix, adj)
    e1, e2 = contour_residuals(P, arp, varp, r, rdot)
    ex = dict(extra or {})
    ex.update({'pixels': numpy.asarray(pix).tolist()[:400], 'adj': adj})
    fn = 'image_to_ground_plane' if surface[0] == 'plane' else 'image_to_ground_hae'
    kb = key or f"{meta['kind']}/{fn}" + ('/adjusted' if adj else '')     # stable: branch / function / quantity
    ok = rec.check(case, f'{tag}: range residual (m)', e1, alarm, kb + '/contour', ex)
    ok &= rec.check(case, f'{tag}: range-rate residual (m cross-range)', e2, alarm, kb + '/contour', ex)
    if surface[0] == 'plane':
        _, gref, n = surface
        ok &= rec.check(case, f'{tag}: plane residual (m)', (P - gref).dot(n), ALARM_M, kb + '/surface', ex)
    else:
        ok &= rec.check(case, f'{tag}: height residual (m)', ecf_to_geod(P)[2] - surface[1], ALARM_M, kb + '/surface', ex)
    side = numpy.sign(((P - arp) * numpy.cross(arp, varp)).sum(axis=1))
    ok &= rec.check(case, f'{tag}: look side', (side != meta['look']).astype('float64'), 0.5, kb + '/look-side', ex)
    rec.evals += len(pix)
    return ok


# ---------------------------------------------------------------------------------------------------------------
# the direct oracle on one structure

def oracle_case(rec, case, rng, tier):
    from sarpy.geometry import point_projection as pp
    meta, s = case['meta'], case['structure']
    pix = pixel_grid(meta, rng, 14 if tier == 'quick' else 20)
    case['pix'] = pix
    N = len(pix)
    min_ss = min(meta['ss'])
    cls = (meta['kind'], meta['look'], meta['tcoa_kind'], tuple(meta['first']) != (0, 0), bool(meta.get('mirror_of') is not None))
    scp, n0 = default_plane(meta)
    ref_h = float(ecf_to_geod(scp)[2])
    case['ref_hae'] = ref_h

    # (1)(2) plane, default arguments
    P = pp.image_to_ground_plane(pix, s)
    case['P'] = P
    surface_and_contour(rec, case, 'plane(default)', P, pix, None, ('plane', scp, n0))
    rec.classes.add(cls + ('plane-default',))
    # custom plane: shifted reference point, tilted, unnormalised normal
    up = ellipsoid_gradient_normal(scp)
    e1 = unit(numpy.cross(up, [0.3, -0.5, 0.8]))
    e2 = numpy.cross(up, e1)
    gref = scp + rng.uniform(-300, 300) * up + rng.uniform(-300, 300) * e1 + rng.uniform(-300, 300) * e2
    tilt = math.radians(rng.uniform(0, 6))
    az = rng.uniform(0, 2 * math.pi)
    n1 = unit(math.cos(tilt) * up + math.sin(tilt) * (math.cos(az) * e1 + math.sin(az) * e2))
    scale = rng.choice([1.0, 7.5, 1e-3])
    P1 = pp.image_to_ground_plane(pix, s, gref=list(gref), ugpn=n1 * scale)
    surface_and_contour(rec, case, 'plane(custom)', P1, pix, None, ('plane', gref, n1),
                        extra={'gref': gref.tolist(), 'ugpn': (n1 * scale).tolist()})
    rec.classes.add(cls + ('plane-custom', scale))
    case['custom_plane'] = (gref, n1)

    # (1)(2) constant height
    H = pp.image_to_ground_hae(pix, s)
    case['H'] = H
    surface_and_contour(rec, case, 'hae(default)', H, pix, None, ('hae', ref_h))
    hae0 = ref_h + rng.uniform(-300, 800)
    tol = rng.choice([1e-3, 1e-6, 0.5])
    H1 = pp.image_to_ground_hae(pix, s, hae0=hae0, tolerance=tol, max_iterations=rng.choice([10, 25]))
    # the height is reset exactly; along the contour the result is converged only to the requested height tolerance:
    # residual <= tolerance x (angle between the reference normal and the local one, < 6e-4 within 4 km) / tan(graze > 9 deg)
    surface_and_contour(rec, case, f'hae(hae0, tol={tol:g})', H1, pix, None, ('hae', hae0), extra={'hae0': hae0, 'tolerance': tol},
                        alarm=max(ALARM_M, 4e-3 * tol))
    rec.classes.add(cls + ('hae', tol))
    # the dispatcher
    D1 = pp.image_to_ground(pix, s, projection_type='plane')
    D2 = pp.image_to_ground(pix, s)
    rec.check(case, 'image_to_ground(PLANE) vs image_to_ground_plane (m)', D1 - P, IDENT, 'dispatch')
    rec.check(case, 'image_to_ground(default HAE) vs image_to_ground_hae (m)', D2 - H, IDENT, 'dispatch')
    rec.evals += 2 * N

    # (3) round trips
    for tag, G in (('plane(default)', P), ('plane(custom)', P1), ('hae(default)', H), ('hae(hae0)', H1)):
        back, dg, it = pp.ground_to_image(G, s, tolerance=1e-6, max_iterations=25)
        # a ground point computed with a coarse height tolerance is off the contour by up to 4e-3 x tolerance (see above)
        lim = max(ALARM_PIX, 2 * 4e-3 * tol / min_ss) if tag == 'hae(hae0)' else ALARM_PIX
        rec.check(case, f'round trip {tag}, tolerance 1e-6 (pixel)', back - pix, lim, 'round-trip',
                  {'pixels': pix.tolist(), 'source': tag}, log=1e-5)
        rec.check(case, 'ground_to_image: displacement <= tolerance on exit before max_iterations',
                  (numpy.where(numpy.asarray(it) < 25, dg, 0.0) > 1e-6).astype('float64'), 0.5, 'g2i-exit-condition')
        rec.evals += N
    back, dg, it = pp.ground_to_image(H, s)
    rec.check(case, 'round trip hae(default), default tolerance 1e-2 m (pixel, bound 1.5 tol / sample spacing)',
              (back - pix) * min_ss / 1.5e-2, 1.0, 'round-trip-default-tolerance', {'pixels': pix.tolist()}, log=2.0)
    rec.stat('round trip at default tolerance (pixel)', numpy.nanmax(numpy.abs(back - pix)))
    rec.check(case, 'ground_to_image default: iterations within max_iterations', (numpy.asarray(it) > 10).astype('float64'), 0.5, 'g2i-exit-condition')
    rec.check(case, 'ground_to_image default: displacement <= tolerance on exit before max_iterations',
              (numpy.where(numpy.asarray(it) < 10, dg, 0.0) > 1e-2).astype('float64'), 0.5, 'g2i-exit-condition')
    rec.evals += N
    rec.classes.add(cls + ('round-trip',))

    # adjustable parameters, one random set and frame
    adj = {'delta_arp': [rng.uniform(-30, 30) for _ in range(3)], 'delta_varp': [rng.uniform(-0.3, 0.3) for _ in range(3)],
           'range_bias': rng.uniform(-10, 10), 'adj_params_frame': rng.choice(['ECF', 'RIC_ECF', 'RIC_ECI'])}
    Pa = pp.image_to_ground_plane(pix, s, use_structure_coa=False, **adj)
    surface_and_contour(rec, case, f'plane(adjusted, {adj["adj_params_frame"]})', Pa, pix, adj, ('plane', scp, n0))
    rec.stat('shift produced by the adjustable parameters (m)', numpy.nanmax(numpy.abs(Pa - P)))
    Ha = pp.image_to_ground_hae(pix, s, use_structure_coa=False, **adj)
    surface_and_contour(rec, case, f'hae(adjusted, {adj["adj_params_frame"]})', Ha, pix, adj, ('hae', ref_h))
    back, dg, it = pp.ground_to_image(Pa, s, tolerance=1e-6, max_iterations=25, use_structure_coa=False, **adj)
    rec.check(case, 'round trip with adjustable parameters (pixel)', back - pix, ALARM_PIX, 'round-trip', {'adj': adj}, log=1e-5)
    rec.evals += N
    rec.classes.add(cls + ('adjusted', adj['adj_params_frame']))
    case['adj'] = adj
    case['Pa'] = Pa

    invariance(rec, case, rng, pp, cls)
    wrappers(rec, case, rng, pp, cls)


def invariance(rec, case, rng, pp, cls):
    """(4) array shape, batch composition, block size, order"""
    meta, s, pix, P, H = case['meta'], case['structure'], case['pix'], case['P'], case['H']
    N = len(pix)
    perm = list(range(N))
    rng.shuffle(perm)
    perm = numpy.array(perm)
    inv = numpy.argsort(perm)
    a = rng.choice([2, 4, 8])
    M = (N // a) * a
    lo = rng.randint(0, N - 12)
    sub = slice(lo, lo + rng.randint(1, 11))
    singles = [rng.randrange(N) for _ in range(6)]
    bs = rng.choice([2, 3, 7, 50])

    def variants(f, ref, tag, ident, key, coupled_alarm=None, nan_rows=None):
        """f(points, **kw) -> array aligned with points.  `ident`: threshold for paths that must be pointwise;
        coupled_alarm: threshold for variants that change which points share an iteration loop"""
        lim = ident if coupled_alarm is None else coupled_alarm
        rec.check(case, f'{tag}: permuted order', f(pix[perm])[inv] - ref, ident, key)
        rec.check(case, f'{tag}: shape ({a},{M // a},2)', f(pix[:M].reshape(a, M // a, 2)).reshape(M, -1) - ref[:M], ident, key)
        rec.check(case, f'{tag}: list input', f(pix[:5].tolist()) - ref[:5], lim, key)
        nb, n1 = (N, N) if case.get('tier') != 'quick' else (N if bs >= 7 else 90, 40)    # quick: fewer one-row calls
        rec.check(case, f'{tag}: block_size={bs}', f(pix[:nb], block_size=bs) - ref[:nb], lim, key, {'block_size': bs, 'rows': nb})
        rec.check(case, f'{tag}: block_size=1', f(pix[:n1], block_size=1) - ref[:n1], lim, key, {'block_size': 1, 'rows': n1})
        rec.check(case, f'{tag}: block_size=None', f(pix, block_size=None) - ref, ident, key)
        rec.check(case, f'{tag}: sub-batch', f(pix[sub]) - ref[sub], lim, key, {'slice': [sub.start, sub.stop]})
        rec.check(case, f'{tag}: duplicated batch', f(numpy.concatenate([pix, pix]))[N:] - ref, ident, key)
        if nan_rows is not None:
            # a no-data (NaN) point in the batch must not change what the other points get
            mixed = numpy.concatenate([pix[:7], nan_rows, pix[7:20]])
            got = f(mixed)
            keep = numpy.concatenate([got[:7], got[7 + len(nan_rows):]])
            rec.check(case, f'{tag}: batch containing a NaN (no-data) point', keep - ref[:20], lim, key, {'nan_rows': len(nan_rows)})
        for i in singles:
            one = f(pix[i])
            rec.check(case, f'{tag}: single 1-d point', numpy.ravel(one) - ref[i], lim, key, {'index': i})
            if numpy.shape(one) != numpy.shape(ref[i]):
                rec.check(case, f'{tag}: single 1-d point keeps shape', [numpy.inf], 0.5, key)
        rec.evals += 4 * N + nb + n1 + M + 11 + 6 + (sub.stop - sub.start)

    # non-iterative: pointwise, must be identical
    variants(lambda x, **k: pp.image_to_ground_plane(x, s, **k), P, 'plane', IDENT, 'invariance-plane')
    # iterative, iteration count forced equal for every batch (tolerance at its floor): pointwise, identical
    f_h = lambda x, **k: pp.image_to_ground_hae(x, s, tolerance=1e-12, max_iterations=6, **k)
    variants(f_h, f_h(pix), 'hae(fixed iteration count)', IDENT, 'invariance-hae', nan_rows=numpy.full((1, 2), numpy.nan))
    # an explicit target height that differs from the reference point height, through the blocked and the single-block path
    h0 = float(case.get('ref_hae', 0.0)) + rng.choice([-1, 1]) * rng.uniform(150.0, 700.0)
    f_h0 = lambda x, **k: pp.image_to_ground_hae(x, s, hae0=h0, tolerance=1e-12, max_iterations=8, **k)
    ref_h0 = f_h0(pix)
    variants(f_h0, ref_h0, f'hae(hae0 = reference height {h0 - float(case.get("ref_hae", 0.0)):+.0f} m, fixed iteration count)', IDENT, 'invariance-hae')
    hh = ecf_to_geod(ref_h0)[2]
    rec.check(case, 'hae(explicit hae0): returned points are at the requested height (m)', hh[numpy.isfinite(hh)] - h0, ALARM_M, 'surface')
    # an explicit request for the ellipsoid itself: hae0 = 0 in the spellings a caller uses (a default filled in by truthiness
    # would replace it by the reference height); the result must be at height 0 and on the pixels' contours
    if abs(float(case.get('ref_hae', 0.0))) > 5.0:
        for z in (0, 0.0, numpy.float64(0.0)):
            Z = pp.image_to_ground_hae(pix, s, hae0=z, tolerance=1e-6, max_iterations=25)
            hz = ecf_to_geod(Z)[2]
            rec.check(case, f'hae(explicit hae0 = {z!r}): returned points are at height 0 (m)', hz[numpy.isfinite(hz)], ALARM_M, 'surface',
                      {'hae0': repr(z), 'reference height': case.get('ref_hae')})
        surface_and_contour(rec, case, 'hae(hae0 = 0)', Z, pix, None, ('hae', 0.0), extra={'hae0': 0.0})
        Zd = pp.image_to_ground(pix, s, projection_type='HAE', hae0=0)
        rec.check(case, 'image_to_ground(HAE, hae0=0) vs image_to_ground_hae(hae0=0)', Zd - pp.image_to_ground_hae(pix, s, hae0=0), IDENT, 'dispatch')
        rec.evals += 5 * N
        rec.classes.add(cls + ('hae0-zero',))
    G = lambda x, **k: pp.ground_to_image(x, s, tolerance=1e-12, max_iterations=8, **k)[0]
    g_ref = G(H)

    def g_on(x, **k):
        # x are rows of pix (possibly reshaped); map through the matching ground points
        x = numpy.asarray(x, dtype='float64')
        flat = x.reshape(-1, 2)
        idx = [int(numpy.argmin(numpy.abs(pix - q).sum(axis=1))) for q in flat]
        g = H[idx].reshape(x.shape[:-1] + (3,))
        return G(g, **k)
    variants(g_on, g_ref, 'ground_to_image(fixed iteration count)', IDENT_PIX, 'invariance-g2i')
    # ground points that cannot be imaged (NaN no-data coordinates) in the same batch as ordinary points
    gnan = numpy.concatenate([H[:7], numpy.full((1, 3), numpy.nan), H[7:20]])
    got_n = G(gnan)
    rec.check(case, 'ground_to_image(fixed iteration count): batch containing a NaN (no-data) ground point',
              numpy.concatenate([got_n[:7], got_n[8:]]) - g_ref[:20], IDENT_PIX, 'invariance-g2i')
    rec.check(case, 'round trip hae(default) -> ground_to_image(fixed iteration count) (pixel)', g_ref - pix, ALARM_PIX, 'round-trip', log=1e-5)
    # iterative at the default tolerances: the exit test is shared by the batch
    f_d = lambda x, **k: pp.image_to_ground_hae(x, s, **k)
    variants(f_d, H, 'hae(default tolerance)', IDENT, 'hae-exit-coupled-to-batch', ALARM_M)
    Gd = lambda x, **k: pp.ground_to_image(x, s, **k)[0]
    gd_ref = Gd(H)

    def gd_on(x, **k):
        x = numpy.asarray(x, dtype='float64')
        flat = x.reshape(-1, 2)
        idx = [int(numpy.argmin(numpy.abs(pix - q).sum(axis=1))) for q in flat]
        return Gd(H[idx].reshape(x.shape[:-1] + (3,)), **k)
    variants(gd_on, gd_ref, 'ground_to_image(default tolerance)', IDENT_PIX, 'g2i-exit-coupled-to-batch', ALARM_PIX)
    got_n = Gd(gnan)
    rec.check(case, 'ground_to_image(default tolerance): batch containing a NaN (no-data) ground point',
              numpy.concatenate([got_n[:7], got_n[8:]]) - gd_ref[:20], ALARM_PIX, 'g2i-exit-coupled-to-batch')
    rec.classes.add(cls + ('invariance', a, bs))


def wrappers(rec, case, rng, pp, cls):
    """(5) the structure's own methods agree with the module functions (incl. a stored COA projection)"""
    meta, s, pix, P, H = case['meta'], case['structure'], case['pix'], case['P'], case['H']
    N = len(pix)
    k = 'wrapper'
    rec.check(case, 'project_image_to_ground(PLANE)', s.project_image_to_ground(pix, projection_type='PLANE') - P, IDENT, k)
    rec.check(case, 'project_image_to_ground(HAE)', s.project_image_to_ground(pix) - H, IDENT, k)
    llh = s.project_image_to_ground_geo(pix, projection_type='PLANE')
    lat, lon, h = ecf_to_geod(P)
    dlon = (llh[:, 1] - lon + 180.0) % 360.0 - 180.0
    rec.check(case, 'project_image_to_ground_geo vs own geodetic conversion (m)',
              numpy.stack([(llh[:, 0] - lat) * 111e3, dlon * 111e3 * numpy.cos(numpy.deg2rad(lat)), llh[:, 2] - h]), ALARM_M, k)
    ll2 = pp.image_to_ground_geo(pix, s, ordering='longlat', projection_type='PLANE')
    rec.check(case, 'image_to_ground_geo(longlat) is the column-swapped latlong result', ll2[:, [1, 0, 2]] - llh, 1e-12, k)
    im, dg, it = pp.ground_to_image(P, s)
    im2, dg2, it2 = s.project_ground_to_image(P)
    rec.check(case, 'project_ground_to_image', im2 - im, IDENT_PIX, k)
    own_llh = numpy.stack([lat, lon, h], axis=-1)
    im3 = s.project_ground_to_image_geo(own_llh, tolerance=1e-6, max_iterations=25)[0]
    rec.check(case, 'project_ground_to_image_geo of own geodetic coordinates (pixel)', im3 - pix, ALARM_PIX, k, log=1e-5)
    im4 = pp.ground_to_image_geo(own_llh[:, [1, 0, 2]], s, ordering='longlat', tolerance=1e-6, max_iterations=25)[0]
    rec.check(case, 'ground_to_image_geo(longlat)', im4 - im3, IDENT_PIX, k)
    # stored COA projection with adjustable parameters
    adj = case['adj']
    s2 = s.copy()
    s2.define_coa_projection(**adj)
    rec.check(case, 'define_coa_projection + project_image_to_ground vs module function with the same parameters',
              s2.project_image_to_ground(pix, projection_type='PLANE') - case['Pa'], IDENT, k)
    rec.check(case, 'use_structure_coa=False ignores the stored projection',
              pp.image_to_ground_plane(pix, s2, use_structure_coa=False) - P, IDENT, k)
    # histories of define_coa_projection calls (explicit / default override, method calls in between): which parameter set
    # the structure's own methods use afterwards (Lean: coaDefine / coaRun, theorems coaRun_last_override, coaRun_snoc_keep, ...)
    adj2 = dict(adj, range_bias=adj['range_bias'] + rng.choice([-25.0, 25.0]))
    pool = [{}, adj, adj2]
    outs = [P, case['Pa'], pp.image_to_ground_plane(pix, s, use_structure_coa=False, **adj2)]
    s3 = s.copy()
    ops = []
    for _ in range(rng.randint(1, 5)):
        i_, o_ = rng.randrange(3), rng.random() < 0.55
        if o_ and rng.random() < 0.5:
            s3.define_coa_projection(**pool[i_])            # override defaults to True
        else:
            s3.define_coa_projection(override=o_, **pool[i_])
        ops.append((i_, o_))
        if rng.random() < 0.35:
            s3.project_ground_to_image(P[:1])               # a method call in between must not replace what is stored
    got = s3.project_image_to_ground(pix, projection_type='PLANE')
    used = [j for j in range(3) if numpy.all(numpy.isfinite(got) == numpy.isfinite(outs[j])) and
            float(numpy.nanmax(numpy.abs(got - outs[j]), initial=0.0)) <= IDENT]
    want = None
    for i_, o_ in ops:
        if o_ or want is None:
            want = i_
    case.setdefault('coa_hist', []).append((ops, used))
    if want not in used:
        rec.fails.append({'key': k, 'case': case['name'], 'what': 'define_coa_projection history',
                          'msg': f'{case["name"]}: after define_coa_projection history {[(i, bool(o)) for i, o in ops]} (parameter set index, override) the structure\'s '
                                 f'project_image_to_ground agrees with the module function for parameter set(s) {used}, expected set {want}',
                          'meta': meta_json(case['meta']), 'adj_pool': pool, 'history': ops})
    # a copy of a structure that already holds a stored projection, edited afterwards (what create_subset_structure does): the copy's
    # projection must follow the copy's OWN metadata - pixel (r, c) of the copy with FirstRow + dr / FirstCol + dc is parent pixel (r + dr, c + dc)
    if not hasattr(s, 'ImageData'):       # SIDD structures carry no sub-image offsets
        # the three SIDD structure classes (versions 1, 2, 3) each have their own define_coa_projection / project_* methods: the same
        # measurement block read into each class must project alike, plain and with stored adjustable parameters of every frame
        import logging as _lg
        from sarpy.io.product.sidd1_elements.SIDD import SIDDType as _S1
        from sarpy.io.product.sidd3_elements.SIDD import SIDDType as _S3
        xml2 = s.to_xml_bytes()
        for ver_, cls_, xml_ in ((1, _S1, xml2.replace(b'urn:SIDD:2.0.0', b'urn:SIDD:1.0.0')), (3, _S3, xml2.replace(b'urn:SIDD:2.0.0', b'urn:SIDD:3.0.0'))):
            prev = _lg.root.manager.disable
            _lg.disable(_lg.CRITICAL)
            try:
                sv = cls_.from_xml_string(xml_)
            finally:
                _lg.disable(prev)
            if f'sidd{ver_}_elements' not in type(sv).__module__:
                raise Infra(f'the SIDD version {ver_} structure class was not obtained (got {type(sv).__module__})')
            rec.check(case, f'SIDD version {ver_} class: project_image_to_ground(PLANE) vs the version 2 class (m)',
                      sv.project_image_to_ground(pix, projection_type='PLANE') - P, IDENT, k)
            for frame_ in ('ECF', 'RIC_ECF', 'RIC_ECI'):
                adj_v = dict(adj, adj_params_frame=frame_)
                want_v = pp.image_to_ground_plane(pix, s, use_structure_coa=False, **adj_v)
                sv2 = sv.copy()
                sv2.define_coa_projection(**adj_v)
                rec.check(case, f'SIDD version {ver_} class: define_coa_projection({frame_}) + project_image_to_ground vs the module function with the same parameters (m)',
                          sv2.project_image_to_ground(pix, projection_type='PLANE') - want_v, IDENT, k, {'adj': adj_v, 'sidd_version': ver_})
                im_v = sv2.project_ground_to_image(want_v, tolerance=1e-6, max_iterations=25)[0]
                rec.check(case, f'SIDD version {ver_} class: stored {frame_} parameters, project_ground_to_image of those points (pixel)', im_v - pix, ALARM_PIX, k,
                          {'adj': adj_v, 'sidd_version': ver_}, log=1e-5)
            rec.evals += 7 * N
            rec.classes.add(('sidd-version-class', ver_))
        rec.evals += 10 * N
        rec.classes.add(cls + ('wrappers',))
        return
    sp = s.copy()
    sp.define_coa_projection()
    sp.project_image_to_ground(pix[:2], projection_type='PLANE')
    dr, dc = rng.randint(1, 40), rng.randint(1, 40)
    sc = sp.copy()
    sc.ImageData.FirstRow = int(sp.ImageData.FirstRow) + dr
    sc.ImageData.FirstCol = int(sp.ImageData.FirstCol) + dc
    got_c = sc.project_image_to_ground(pix - numpy.array([dr, dc], dtype='float64'), projection_type='PLANE')
    rec.check(case, f'copy of a structure with a stored projection, FirstRow/FirstCol moved by ({dr}, {dc}): its pixels project like the parent pixels they are (m)',
              got_c - P, ALARM_M, 'copy-then-edit', {'shift': [dr, dc]})
    got_m = pp.image_to_ground_plane(pix - numpy.array([dr, dc], dtype='float64'), sc)
    rec.check(case, 'the same through the module function (m)', got_m - P, ALARM_M, 'copy-then-edit', {'shift': [dr, dc]})
    rec.check(case, 'the copied-from structure is unaffected by the edit of its copy (m)', sp.project_image_to_ground(pix, projection_type='PLANE') - P, IDENT, 'copy-then-edit')
    rec.evals += 13 * N
    rec.classes.add(cls + ('wrappers',))
    rec.classes.add(('copy-then-edit',))
    rec.classes.add(('coa-history', len(ops), any(o for _, o in ops), all(o for _, o in ops)))


def mirror_pairs(rec, cases):
    """(6) reflection z -> -z is a symmetry of WGS-84: a scene and its mirror image (opposite look side, column axis
    reversed) must project mirrored pixels to mirrored ground points"""
    from sarpy.geometry import point_projection as pp
    for cB in cases:
        j = cB['meta'].get('mirror_of')
        if j is None or 'P' not in cB or 'P' not in cases[j]:
            continue
        cA = cases[j]
        mA, mB = cA['meta'], cB['meta']
        pixA = cA['pix']
        csA, csB = mA['scp_pixel'][1] - mA['first'][1], mB['scp_pixel'][1] - mB['first'][1]
        pixB = numpy.stack([pixA[:, 0], csB - (pixA[:, 1] - csA)], axis=-1)
        flip = numpy.array([1.0, 1.0, -1.0])
        PB = pp.image_to_ground_plane(pixB, cB['structure'])
        HB = pp.image_to_ground_hae(pixB, cB['structure'])
        rec.check(cB, 'mirror scene: plane projection is the mirror image (m)', PB * flip - cA['P'], ALARM_M, 'mirror-symmetry')
        rec.check(cB, 'mirror scene: HAE projection is the mirror image (m)', HB * flip - cA['H'], ALARM_M, 'mirror-symmetry')
        rec.evals += 2 * len(pixA)
        rec.classes.add((mB['kind'], 'mirror-pair'))


def nan_probe(rec, case):
    """outside the property's domain (NaN image coordinates), recorded for the notes: the constant-HAE loop test is
    `max(abs(delta)) > tolerance`, which a NaN row turns False for the whole batch"""
    from sarpy.geometry import point_projection as pp
    pix = case['pix']
    bad = numpy.concatenate([pix, [[numpy.nan, 0.0]]])
    Hb = pp.image_to_ground_hae(bad, case['structure'])
    rec.stat('outside domain: change of the other points when one row of an HAE batch is NaN (m)', numpy.nanmax(numpy.abs(Hb[:-1] - case['H'])))
    rec.evals += len(bad)


# ---------------------------------------------------------------------------------------------------------------
# correspondence with the Lean model at Float

class Corr:
    def __init__(self):
        self.disagree = []
        self.n = 0
        self.worst = {}
        self.band = {}

    def cmp(self, what, model, impl, case_name, scale=1.0, alarm=ALARM_M):
        model, impl = numpy.asarray(model, dtype='float64'), numpy.asarray(impl, dtype='float64')
        self.n += int(model.size)
        if model.shape != impl.shape:
            self.disagree.append({'msg': f'{case_name}: {what}: shapes {model.shape} vs {impl.shape}'})
            return
        nm, ni = numpy.isnan(model), numpy.isnan(impl)
        if numpy.any(nm != ni):
            self.disagree.append({'msg': f'{case_name}: {what}: NaN pattern differs at {int(numpy.sum(nm != ni))} entries'})
            return
        d = numpy.abs(numpy.where(nm, 0.0, model - impl)) * scale
        w = float(d.max()) if d.size else 0.0
        self.worst[what] = max(self.worst.get(what, 0.0), w)
        if w > alarm:
            self.disagree.append({'msg': f'{case_name}: {what}: model and implementation differ by {w:.3e} (alarm {alarm:.1e})', 'case': case_name})
        elif w > LOG_M:
            self.band[what] = max(self.band.get(what, 0.0), w)


def coa_of(pp, s, meta, **kw):
    return pp.COAProjection.from_sidd(s, **kw) if meta['kind'] == 'SIDD' else pp.COAProjection.from_sicd(s, **kw)


def correspondence(chk, cases, rng, tier):
    from sarpy.geometry import point_projection as pp
    corr = Corr()
    drv = Driver()
    jobs = []
    for case in cases:
        if 'P' not in case:
            continue
        meta, s, pix = case['meta'], case['structure'], case['pix']
        scp, n0 = default_plane(meta)
        gref1, n1 = case['custom_plane']
        for adj in (None, ([rng.uniform(-30, 30) for _ in range(3)], [rng.uniform(-0.3, 0.3) for _ in range(3)], rng.uniform(-10, 10))):
            kw = {} if adj is None else {'delta_arp': adj[0], 'delta_varp': adj[1], 'range_bias': adj[2]}
            coa = coa_of(pp, s, meta, **kw)
            r, rdot, t, arp, varp = coa.projection(pix.copy())
            toks = lean_coa_tokens(meta, adj)
            jobs.append(('coa', case, (r, rdot, t, arp, varp), drv.ask('proj coa ' + ' '.join(toks) + ' ' + pts_tok(pix))))
            for gref, uz in ((scp, n0), (gref1, n1)):
                impl = pp._image_to_ground_plane_perform(r.copy(), rdot.copy(), arp.copy(), varp.copy(), numpy.array(gref), numpy.array(uz))
                pub = pp.image_to_ground_plane(pix, s, gref=numpy.array(gref), ugpn=numpy.array(uz), use_structure_coa=False, **kw)
                jobs.append(('i2p', case, (impl, pub), drv.ask('proj i2p ' + ' '.join(toks) + f' {fl(gref)} {fl(uz)} ' + pts_tok(pix))))
                if adj is None:
                    idx = []
                    for i in range(len(pix)):
                        idx.append(drv.ask(f'proj plane {fl(arp[i])} {fl(varp[i])} {fb(r[i])} {fb(rdot[i])} {fl(gref)} {fl(uz)}'))
                    jobs.append(('plane', case, impl, idx))
    # the plane intersection on random geometries, including the two masked (NaN) situations
    nrand = 400 if tier == 'quick' else 8000
    rnd = []
    for _ in range(nrand):
        uz = unit([rng.gauss(0, 1) for _ in range(3)])
        gref = numpy.array([rng.uniform(-7e6, 7e6) for _ in range(3)])
        e1 = unit(numpy.cross(uz, [0.2, 0.9, -0.4]))
        e2 = numpy.cross(uz, e1)
        hgt = rng.uniform(5e3, 9e5)
        arp = gref + hgt * uz + rng.uniform(-8e5, 8e5) * e1 + rng.uniform(-8e5, 8e5) * e2
        varp = rng.uniform(50, 8000) * unit(rng.gauss(0, 1) * e1 + rng.gauss(0, 1) * e2 + rng.gauss(0, 0.15) * uz)
        mode = rng.choice(['ok', 'ok', 'ok', 'short', 'fast'])
        r = hgt * rng.uniform(0.3, 0.999) if mode == 'short' else hgt * rng.uniform(1.02, 3.0)
        vm = numpy.linalg.norm(varp)
        rdot = vm * rng.uniform(1.01, 1.5) * rng.choice([-1, 1]) if mode == 'fast' else vm * rng.uniform(-0.6, 0.6)
        rnd.append((mode, arp, varp, r, rdot, gref, uz, drv.ask(f'proj plane {fl(arp)} {fl(varp)} {fb(r)} {fb(rdot)} {fl(gref)} {fl(uz)}')))
    # block structure of the start_block/end_block loop, observed on the implementation
    blk = []
    orig = pp._image_to_ground_plane
    for n, ln in [(1, 5), (7, 50), (50, 50), (64, 50), (3, 10), (rng.randint(2, 40), rng.randint(41, 200))]:
        seen = []

        def spy(im_points, *a, _seen=seen, **k):
            _seen.append(len(im_points))
            return orig(im_points, *a, **k)
        pp._image_to_ground_plane = spy
        try:
            pp.image_to_ground_plane(cases[0]['pix'][:1].repeat(ln, axis=0), cases[0]['structure'], block_size=n)
        finally:
            pp._image_to_ground_plane = orig
        blk.append((n, ln, seen, drv.ask(f'proj blocks {n} {ln}')))
    hist = []
    for case in cases:
        for ops, used in case.get('coa_hist', []):
            hist.append((case['name'], ops, used, drv.ask('proj coacache ' + (','.join(f'{i_}:{int(o_)}' for i_, o_ in ops) or '-'))))
    ans = drv.run()
    for kind, case, impl, i in jobs:
        nm = case['name']
        if kind == 'coa':
            r, rdot, t, arp, varp = impl
            got = numpy.array([[bf(x) for x in row.split(',')] for row in ans[i].split(';')]) if ans[i] != 'bad-op' else None
            if got is None:
                corr.disagree.append({'msg': f'{nm}: model driver refused the coa request'})
                continue
            vm = numpy.linalg.norm(varp, axis=1)
            corr.cmp('COAProjection.projection: range (m)', got[:, 0], r, nm)
            corr.cmp('COAProjection.projection: range rate (m cross-range)', got[:, 1] * r / vm, rdot * r / vm, nm)
            corr.cmp('COAProjection.projection: COA time (m along track)', got[:, 2] * vm, t * vm, nm)
            corr.cmp('COAProjection.projection: ARP (m)', got[:, 3:6], arp, nm)
            corr.cmp('COAProjection.projection: VARP (m cross-range)', got[:, 6:9] * (r / vm)[:, None], varp * (r / vm)[:, None], nm)
        elif kind == 'i2p':
            impl_int, pub = impl
            if ans[i] == 'bad-op':
                corr.disagree.append({'msg': f'{nm}: model driver refused the i2p request'})
                continue
            got = parse_pts(ans[i])
            corr.cmp('pixel -> ground plane point, model vs image_to_ground_plane (m)', got, pub, nm)
            corr.cmp('image_to_ground_plane vs _image_to_ground_plane_perform (m)', pub, impl_int, nm)
        else:
            got = numpy.array([[float('nan')] * 3 if ans[k] == 'nan' else [bf(x) for x in ans[k].split(',')] for k in i])
            corr.cmp('_image_to_ground_plane_perform, model on the implementation\'s (R, Rdot, ARP, VARP) (m)', got, impl, nm)
    nan_seen = {'ok': 0, 'short': 0, 'fast': 0}
    for mode, arp, varp, r, rdot, gref, uz, i in rnd:
        import warnings
        with warnings.catch_warnings():
            warnings.simplefilter('ignore')
            impl = pp._image_to_ground_plane_perform(numpy.array([r]), numpy.array([rdot]), arp[None, :].copy(), varp[None, :].copy(), gref, uz)[0]
        got = numpy.array([float('nan')] * 3 if ans[i] == 'nan' else [bf(x) for x in ans[i].split(',')])
        nan_seen[mode] += int(numpy.isnan(impl).any())
        if numpy.isnan(impl).any() != numpy.isnan(got).any():
            corr.disagree.append({'msg': f'random plane case ({mode}): NaN status differs (model {ans[i][:20]}, implementation {impl})',
                                  'input': [arp.tolist(), varp.tolist(), r, rdot, gref.tolist(), uz.tolist()]})
        elif not numpy.isnan(impl).any():
            corr.cmp('random plane geometries (m)', got, impl, 'random')
            # and the oracle on these as well
            res = [abs(numpy.dot(impl - gref, uz)), abs(numpy.linalg.norm(impl - arp) - r),
                   abs(-numpy.dot(varp, impl - arp) / numpy.linalg.norm(impl - arp) - rdot) * r / numpy.linalg.norm(varp)]
            inp = [arp.tolist(), varp.tolist(), r, rdot, gref.tolist(), uz.tolist()]
            if max(res) > ALARM_M:
                corr.disagree.append({'msg': f'random plane case: implementation residuals {res}', 'oracle': True, 'input': inp})
            # of the two intersections of the R/Rdot contour with the plane (mirror images about the ground track) the one on the
            # reference point's side is the projection (Volume 3: LOOK is taken from the ground reference point)
            side_ref = float(numpy.dot(numpy.cross(arp - gref, varp), uz))
            side_got = float(numpy.dot(numpy.cross(arp - impl, varp), uz))
            scale = float(numpy.linalg.norm(arp - gref) * numpy.linalg.norm(varp))
            if abs(side_ref) > 1e-6 * scale and abs(side_got) > 1e-6 * scale and side_ref * side_got < 0:
                corr.disagree.append({'msg': f'_image_to_ground_plane_perform returns the mirror intersection: the point {impl.tolist()} lies on the other side of '
                                             f'the ground track than the ground reference point (plane normal {uz.tolist()})', 'oracle': True, 'input': inp})
        corr.n += 1
    for nm, ops, used, i in hist:
        if ans[i] == 'N' or not ans[i].isdigit() or int(ans[i]) not in used:
            corr.disagree.append({'msg': f'{nm}: define_coa_projection history {ops}: model says parameter set {ans[i]} is in effect, implementation agrees with set(s) {used}'})
        corr.n += 1
    for n, ln, seen, i in blk:
        if ans[i] != '[' + ','.join(str(x) for x in seen) + ']':
            corr.disagree.append({'msg': f'block loop: implementation processed blocks {seen} for block_size={n}, {ln} points; model {ans[i]}'})
        corr.n += 1
    corr.nan_seen = nan_seen
    return corr


# ---------------------------------------------------------------------------------------------------------------

def run_case(rec, case, tier):
    import random
    crng = random.Random(case['seed'])
    case['tier'] = tier
    try:
        oracle_case(rec, case, crng, tier)
        nan_probe(rec, case)
    except Exception as e:     # an exception on a supported input is a failure of the property
        import traceback
        rec.fails.append({'key': 'exception:' + type(e).__name__, 'case': case['name'], 'worst': float('inf'),
                          'msg': f'{case["name"]}: raised {type(e).__name__}: {e}', 'trace': traceback.format_exc()[-1500:],
                          'meta': meta_json(case['meta']), 'seed': case['seed']})


def run(tier):
    import logging
    import warnings
    sarpy_guard()
    logging.getLogger('sarpy').setLevel(logging.CRITICAL)
    chk = Check('C04', tier)
    rng = chk.rng
    # argument defaults of the entry points (hae0, gref, ugpn): regenerated from the current source, bridged to Spec.Defaults.fill
    import sys as _sys
    _sys.path.insert(0, os.path.join(os.path.dirname(os.path.dirname(os.path.abspath(__file__))), 'translate'))
    import gen_defaults
    d_info = gen_defaults.generate(os.path.join(os.path.dirname(os.path.dirname(os.path.abspath(__file__))), 'lean', 'SarpyModel', 'Gen', 'Defaults.lean'))
    broken = chk.prove(['SarpyModel.Props.C04', 'SarpyModel.Props.C04Defaults', 'SarpyModel.Drivers'], 'SarpyModel.Props.C04', 'Sarpy.Props.C04', REQUIRED,
                       {'argument_defaults': {'hashes': d_info['hashes'], 'unsupported': d_info['unsupported'], 'fragments': d_info['fragments']}},
                       extra=[('SarpyModel.Props.C04Defaults', 'Sarpy.Props.C04', DEFAULTS_REQUIRED)])
    for nm_, why_ in d_info['unsupported']:
        broken.append(f'translator gen_defaults could not express {nm_}: {why_}')
    bases = load_bases()
    cases = build_cases(rng, tier, bases)
    rec = Recorder()
    for case in cases:
        case['seed'] = rng.getrandbits(48)
        run_case(rec, case, tier)
    try:
        mirror_pairs(rec, cases)
    except Exception as e:
        rec.fails.append({'key': 'exception:' + type(e).__name__, 'case': 'mirror pairs', 'worst': float('inf'),
                          'msg': f'mirror pairs: raised {type(e).__name__}: {e}'})
    corr = None
    try:
        with warnings.catch_warnings():
            warnings.simplefilter('ignore')
            corr = correspondence(chk, cases, rng, tier)
    except Infra as e:
        broken.append('model driver does not build/run: ' + str(e)[:300])
    disagreements = corr.disagree if corr else []

    # one failure per key, the worst one
    by_key = {}
    for f in rec.fails:
        f.setdefault('seed', next((c['seed'] for c in cases if c['name'] == f.get('case')), None))
        f['tier'] = tier
        if f['key'] not in by_key or f.get('worst', 0) > by_key[f['key']].get('worst', 0):
            by_key[f['key']] = f
    fails = list(by_key.values())
    kinds = sorted({c['meta']['kind'] for c in cases})
    chk.coverage.update({
        'evaluations': rec.evals + (corr.n if corr else 0),
        'projections_on_implementation': rec.evals,
        'distinct_nontrivial': len(rec.classes),
        'structures': [c['name'] for c in cases],
        'branches': kinds,
        'look_sides': sorted({('L' if c['meta']['look'] > 0 else 'R') + ':' + c['meta']['kind'] for c in cases}),
        'scene_latitudes_deg': [round(c['meta']['scp_llh'][0], 2) for c in cases],
        'rule': 'structures: the two example SICDs, the example SIDD, and synthetic SICD/SIDD structures for every branch '
                '(PFA, RGAZCOMP, RMA/INCA, XRGYCR, XCTYAT, PLANE, SIDD plane projection) x both look sides (natural and by exact '
                'mirror image) x squint +-35 deg x scene anywhere on the globe (rotated orbit, antimeridian) x COA time polynomial '
                '(constant / linear / quadratic) x shifted SCP pixel x sub-image (FirstRow/FirstCol) x slant / ground image plane; '
                'pixels: jittered grid over the image and 50 % beyond + corners + SCP; per structure: default and custom plane, '
                'HAE at reference and other heights with tolerances 1e-3 / 1e-6 / 0.5, adjustable parameters in ECF / RIC_ECF / RIC_ECI, '
                'round trips, shape / order / block / batch variants, wrappers; distinct = distinct (branch, look, COA kind, sub-image, '
                'mirror, check kind, parameter) tuples reached',
        'samples': [c['name'] for c in cases[:3]] + ['pixel ' + json.dumps(cases[0]['pix'][3].tolist())],
        'traces_validated_against_impl': corr.n if corr else 0,
        'disagreements_checked': len(disagreements),
        'oracle_worst_residuals': {k: float(f'{v:.3e}') for k, v in sorted(rec.stats.items())},
        'oracle_margin_band': {k: float(f'{v:.3e}') for k, v in sorted(rec.band.items())},
        'correspondence_worst': {k: float(f'{v:.3e}') for k, v in sorted(corr.worst.items())} if corr else {},
        'correspondence_margin_band': {k: float(f'{v:.3e}') for k, v in sorted(corr.band.items())} if corr else {},
        'random_plane_nan_cases': corr.nan_seen if corr else {},
        'margins': {'alarm_m': ALARM_M, 'alarm_pixel': ALARM_PIX, 'identical_m': IDENT, 'identical_pixel': IDENT_PIX, 'logged_above_m': LOG_M},
        'failing_inputs': len(rec.fails),
        'failing_keys': sorted(by_key),
    })
    chk.assumptions += [
        'IEEE-754 rounding of the implementation is not proved: the theorems are over the reals; the Float-instantiated model and the '
        'independent oracle agree with sarpy to ~1e-8 m, alarm at 1e-4 m / 1e-3 pixel',
        'convergence of the constant-HAE and ground-to-image iterations is not proved; only what holds on exit (hae_exit_bound, '
        'g2i_exit_bound) and that every HAE iterate lies on the contour; the final slant-plane correction and height reset of '
        'image_to_ground_hae are covered by the oracle only',
        'batch independence is a theorem for the (pointwise) plane projection; for the two iterations the exit test is shared by the '
        'batch, so independence holds for equal iteration counts (theorem hae_pointwise_given_iterations; checked with the tolerance at '
        'its floor) and otherwise only within the tolerance (checked against the alarm margins)',
        'default ground plane: through the SCP / reference point; normal = PFA.FPN (PFA), product plane normal (SIDD), else the gradient '
        'of the WGS-84 quadratic form at the SCP (differs from the geodetic normal by < 1e-6 rad for |HAE| < 3 km)',
        'geodetic height / conversions in the oracle: own fixed-point iteration (not sarpy.geometry.geocoords); the geodesy itself is C12',
        'the branch equations in the oracle are a hand transcription of SICD Volume 3 (Image Projections Description), sections on '
        'RGAZIM/PFA, RGAZIM/RGAZCOMP, RGZERO/INCA and the planar grids; DEM projection is not covered',
        'numpy vectorisation -> per-point function, loops -> recursion in the hand model (validated by the correspondence)',
    ]
    unknown = [f for f in fails if not chk.known(f.get('key', ''))]
    unknown.sort(key=lambda f: -f.get('worst', 0) if math.isfinite(f.get('worst', 0)) else -1e300)
    for f in unknown[:5]:
        chk.violation(f['msg'], {'case': f, 'replay_cmd': './check C04 --replay <this file>'}, True)
    oracle_dis = [d for d in disagreements if d.get('oracle')]
    for d in oracle_dis[:max(0, 5 - len(unknown[:5]))]:
        chk.violation(d['msg'], {'case': d, 'replay_cmd': 'input = [ARP, VARP, R, Rdot, ground reference point, plane normal] of sarpy.geometry.point_projection._image_to_ground_plane_perform'}, True)
    if not unknown and not oracle_dis and (broken or disagreements):
        chk.violation('proof obligation or correspondence no longer checks: ' + '; '.join(broken[:3] + [d['msg'][:200] for d in disagreements[:2]]),
                      {'broken_obligations': broken, 'disagreements': disagreements[:10]}, False)
    return chk.finish()


def replay(path):
    """re-run the oracle on the recorded structure (implementation only) and report whether the failure reproduces"""
    import logging
    sarpy_guard()
    logging.getLogger('sarpy').setLevel(logging.CRITICAL)
    doc = json.load(open(path))
    f = doc.get('case')
    if not f or 'meta' not in f:
        print(json.dumps(doc, indent=1)[:3000])
        return 1
    bases = load_bases()
    meta = meta_unjson(f['meta'])
    case = {'name': f['case'], 'meta': meta, 'structure': structure_of(meta, bases), 'seed': f.get('seed') or 0}
    rec = Recorder()
    run_case(rec, case, f.get('tier', 'quick'))
    hits = [g for g in rec.fails if g['key'] == f['key']]
    print(f'replay of {f["key"]} on {f["case"]}: recorded {f["msg"]}')
    for g in hits[:10]:
        print('  reproduced:', g['msg'])
    if not hits:
        print('  not reproduced; worst residuals now:', json.dumps({k: v for k, v in rec.stats.items() if v > LOG_M}, indent=1))
    return 1 if hits else 0
