"""C05 — metadata structures survive XML, dict and copy round trips without loss.

proof side : lean/SarpyModel/Props/C05.lean (table-driven XML/dict codec; parse (serialize v) = v, text stability, dict, copy;
             unbounded in tables, nesting depth, collection lengths)
tie        : translator (tables_xml.py reflects every Serializable class of the element packages on every run: rows, tags,
             namespace contexts, list of classes outside the generic machinery; `tables_wf` is re-decided by the Lean kernel)
             + correspondence: every generated instance of a table-driven class is converted to the model's value tree, the
             model's serialisation is compared node by node with the XML the implementation wrote (tag order, attribute vs
             element, presence, namespace prefix), the model's parse of the real XML and the model's dict form likewise
search     : direct oracle on the implementation for every class (table-driven or not): from_xml(to_xml(x)) == x field by field
             with floats bit for bit, re-serialisation byte-identical, from_dict(to_dict(x)) == x, copy() == x
"""
import copy as _copy
import json
import logging
import math
import os
import random
import struct
import sys
import time
from collections import OrderedDict
from xml.etree import ElementTree

from common import Check, Driver, Infra, VERIF, sarpy_guard  # noqa

sys.path.insert(0, os.path.join(VERIF, 'translate'))

REQUIRED = ['parse_serialize', 'serialize_parse_serialize', 'parse_serialize_twice', 'parse_serialize_any_fuel', 'ofDict_toDict', 'copy_eq', 'copy_eq_any_fuel',
            'parseRow_serialized', 'row_view', 'filter_flatMap_key', 'serializeN_tag',
            # C05X: coefficient arrays, float arrays, object arrays (bounds, index canonicalisation), parameter collections
            'parsePoly_serializePoly', 'polyOfDict_polyToDict', 'parsePolyBody_polyBody', 'readCoefs1_perm', 'readCoefs1_sparse',
            'place_enum', 'place_perm', 'place_drop_fill', 'enumRows_eq', 'chunk_flatten', 'farr_parse', 'sizeOk_written',
            'reindex_idem', 'reindex_of_canon', 'finishArr_of_wf', 'dedupe_of_distinct', 'dedupe_idem', 'parseArray_canon',
            'parseParams_canon', 'wfField_mono', 'Example.codec_laws',
            # children handed to a parent of another namespace context
            'wfValN_variant', 'wfField_variant', 'moved_roundtrip', 'moved_after_parse', 'serialize_moved_eq', 'moved_copy']

SIZE_BASE = 1000000000
FAMILY_URN = {
    'sarpy.io.complex.sicd_elements': 'urn:SICD:1.3.0',
    'sarpy.io.phase_history.cphd1_elements': 'urn:CPHD:1.1.0',
    'sarpy.io.phase_history.cphd0_3_elements': 'urn:CPHD:0.3.0',
    'sarpy.io.received.crsd1_elements': 'urn:CRSD:1.0.0',
    'sarpy.annotation.afrl_rde_elements': 'urn:AFRL_RDE:1.0.0',
}


REQUIRED_BOUNDS = ['accepts_iff', 'accepts_closed_lo', 'accepts_closed_hi', 'accepts_closed', 'exclusive_upper_refuses_bound', 'accepts_none',
                   'accepts_widen', 'contains_sound', 'inclusive_facet_bounds_accepted']


def bounds_obligations(chk, broken, lean_dir):
    """regenerate Gen/Bounds.lean (comparison kernel of the bounded descriptors + descriptor / facet tables), build it on its own and audit the
    generated bridge and table theorems; what breaks is appended to `broken` (the facet / bound value families of the oracle provide the input)"""
    import gen_bounds
    from common import lake_build, audit, ALLOWED_AXIOMS
    g = gen_bounds.generate(os.path.join(lean_dir, 'SarpyModel', 'Gen', 'Bounds.lean'))
    chk.coverage['bounds'] = {k: g[k] for k in ('unsupported', 'descriptors', 'strict', 'fields_with_facets', 'contained_pairs', 'narrower_pairs', 'narrower',
                                                'bounded_fields_without_facet', 'strict_without_facet', 'fragments')}
    for name, why in g['unsupported']:
        broken.append('Gen.Bounds.%s: the comparison kernel of the descriptor is no longer in the translatable shape (%s)' % (name, why))
    ok, _, errs, log = lake_build(['SarpyModel.Gen.Bounds'])
    if not ok:
        broken.append('Gen/Bounds.lean does not build - the regenerated `_in_bounds` is not the closed interval, or a descriptor became narrower than the '
                      'facets of its schema element: ' + '; '.join('%s:%s %s' % (f, l, m[:140]) for f, l, c, m in errs[:3]) + log[-160:])
        return g
    th = audit('SarpyModel.Gen.Bounds', 'Sarpy.Gen.Bounds')
    for n, a in th.items():
        if set(a) - ALLOWED_AXIOMS:
            broken.append('%s depends on non-standard axioms %s' % (n, sorted(set(a) - ALLOWED_AXIOMS)))
    for t in g['theorems']:
        if 'Sarpy.Gen.Bounds.' + t not in th:
            broken.append('Sarpy.Gen.Bounds.%s (required theorem missing)' % t)
    chk.coverage['bounds']['generated_theorems_audited'] = len(th)
    return g


class CannotConstruct(Exception):
    pass


# ------------------------------------------------------------------------------------------------ value pools

FLOAT_POOL = [0.0, -0.0, 1.0, -1.0, 0.1, 1.0 / 3.0, math.pi, -math.e, 123456789.12345679, 1e-7, 5e-324, -5e-324,
              2.2250738585072014e-308, 2.225073858507201e-308, 1e308, -1e308, 1.7976931348623157e308, 1e16, 9007199254740993.0,
              0.30000000000000004, 1e22, 1e23, 4.35, 2.675, 1.0000000000000002, 0.9999999999999999]
SPECIAL_FLOATS = [float('inf'), float('-inf'), float('nan')]
STRING_POOL = ['abc', 'A', 'two words', 'Grüße aus Köln', '東京 タワー', 'Ωμέγα ∑ ≤ ≥', 'a<b&c>d "quoted" \'single\'', 'line1\nline2',
               'tab\there', 'x' * 5000, 'é' * 700, '0', 'None', 'true', '1e5', 'émoji \U0001F6F0 satellite', 'trailing.dot.', '[]{}()']
EDGE_STRINGS = ['', ' leading', 'trailing ', '  ', '\tboth\n']
DATE_POOL = ['2020-01-02T03:04:05.678901', '1970-01-01T00:00:00.000000', '1999-12-31T23:59:59.999999', '2038-01-19T03:14:08.000001',
             '0001-01-01T00:00:00.000000', '9999-12-31T23:59:59.999999', '2016-02-29T12:00:00.500000', '1969-12-31T23:59:59.999999']


def rand_float(rng, bounds=None, special=True):
    lo, hi = (None, None) if bounds is None else bounds
    # the value EXACTLY at a declared bound (the acceptance domain of a bounded field is the closed interval): one draw in four
    ends = [float(b) for b in (lo, hi) if b is not None]
    if ends and rng.random() < 0.25:
        return rng.choice(ends)
    for _ in range(40):
        r = rng.random()
        if r < 0.55:
            v = rng.choice(FLOAT_POOL)
        elif r < 0.60 and special:
            v = rng.choice(SPECIAL_FLOATS)
        elif r < 0.8:
            v = struct.unpack('>d', struct.pack('>Q', rng.getrandbits(64)))[0]
            if v != v or v in (float('inf'), float('-inf')):
                continue
        else:
            v = rng.uniform(-1, 1) * 10 ** rng.randint(-12, 12)
        if v != v:
            if lo is None and hi is None:
                return v
            continue
        if (lo is None or lo <= v) and (hi is None or v <= hi):
            return v
    if lo is not None and hi is not None:
        return rng.choice([lo, hi, lo + (hi - lo) * rng.random()])
    if lo is not None:
        return rng.choice([lo, lo + abs(rng.choice(FLOAT_POOL[:12]))])
    return rng.choice([hi, hi - abs(rng.choice(FLOAT_POOL[:12]))])


def rand_int(rng, bounds=None):
    lo, hi = (None, None) if bounds is None else bounds
    ends = [int(b) for b in (lo, hi) if b is not None]
    if ends and rng.random() < 0.25:
        return rng.choice(ends)
    pool = [0, 1, -1, 7, 255, 65536, 2 ** 31 - 1, -2 ** 31, 2 ** 63, -2 ** 63 - 1, 10 ** 30, rng.randint(-10 ** 9, 10 ** 9)]
    ok = [v for v in pool if (lo is None or lo <= v) and (hi is None or v <= hi)]
    if lo is not None:
        ok.append(lo)
    if hi is not None:
        ok.append(hi)
    if lo is not None and hi is not None:
        ok.append(rng.randint(lo, hi))
    return rng.choice(ok)


def regex_example(pattern, rng):
    """a string matching one of the patterns used by StringRegexDescriptor fields"""
    import re
    cands = ['S1', 'CFX', 'F8', 'I4', 'CI4', 'X=F8;Y=F8;', 'A=I2;', 'U1', 'abc', 'A1', '1.0', 'urn:x', 'X', '0', 'AB12', 'a=F4;b=I8;', 'F4', 'I2', 'CF8',
             'POLY', 'S8=1;', 'NAME=U1;']
    rng.shuffle(cands)
    m = re.compile(pattern)
    for c in cands:
        if m.fullmatch(c):
            return c
    raise CannotConstruct(f'no example for regex {pattern!r}')


# ------------------------------------------------------------------------------------------------ instance generator

class Generator:
    """instances built from the descriptors of a class (what the tables are built from)"""

    def __init__(self, edge_strings=False, nonstandard=()):
        self.edge_strings = edge_strings
        self.nonstandard = set(nonstandard)      # (qualified class, field): draw a value OUTSIDE the enumeration / pattern

    def off_domain(self, cls, attr, d, rng, p=0.08):
        """lenient (non-strict) enumeration / pattern descriptors accept any value with a logged error: such values are part of what
        a structure can hold, and must survive the round trips like the standard ones"""
        if getattr(d, 'strict', True):
            return False
        return (cls.__module__ + '.' + cls.__qualname__, attr) in self.nonstandard or rng.random() < p

    def string(self, rng):
        if self.edge_strings and rng.random() < 0.5:
            return rng.choice(EDGE_STRINGS)
        return rng.choice(STRING_POOL)

    def prim(self, d, rng, cls, attr):
        from sarpy.io.xml import descriptors as D
        if isinstance(d, D.StringEnumDescriptor):
            if self.off_domain(cls, attr, d, rng):
                std = sorted(d.values)
                cands = [v for v in ['MULTISTATIC', 'MONO32F', rng.choice(std).lower(), rng.choice(std) + '_X', 'Non standard value', 'OTHER:x']
                         if v not in d.values]
                if cands:
                    return rng.choice(cands)
            return rng.choice(sorted(d.values))
        if isinstance(d, D.StringRegexDescriptor):
            if self.off_domain(cls, attr, d, rng):
                import re
                cands = [v for v in ['no match here', '?', 'x y z', '12 34'] if not re.compile(d.pattern).fullmatch(v)]
                if cands:
                    return rng.choice(cands)
            return regex_example(d.pattern, rng)
        if isinstance(d, D.StringDescriptor):
            return self.string(rng)
        if isinstance(d, D.BooleanDescriptor):
            return rng.random() < 0.5
        if isinstance(d, D.IntegerEnumDescriptor):
            if self.off_domain(cls, attr, d, rng):
                cands = [v for v in [max(d.values) + 1, min(d.values) - 1, 77, -3] if v not in d.values]
                if cands:
                    return rng.choice(cands)
            return rng.choice(sorted(d.values))
        if isinstance(d, D.IntegerDescriptor):
            return rand_int(rng, d.bounds)
        if isinstance(d, D.FloatModularDescriptor):
            return rand_float(rng, None, special=False)
        if isinstance(d, D.FloatDescriptor):
            v = rand_float(rng, d.bounds)
            if d.bounds is None and v == v and abs(v) < 1e30 and rng.random() < 0.12:
                # the same number as a numpy floating scalar of another width (a value taken out of a float32 array, a long double):
                # a float field holds a float whatever floating type it was given
                import numpy
                return rng.choice([numpy.float32, numpy.float16 if abs(v) < 6e4 else numpy.float32, numpy.longdouble, numpy.float64])(v)
            return v
        if isinstance(d, D.DateTimeDescriptor):
            import numpy
            if rng.random() < 0.7:
                s = rng.choice(DATE_POOL)
            else:
                s = '%04d-%02d-%02dT%02d:%02d:%02d.%06d' % (rng.randint(1, 9999), rng.randint(1, 12), rng.randint(1, 28), rng.randint(0, 23),
                                                             rng.randint(0, 59), rng.randint(0, 59), rng.randint(0, 999999))
            return numpy.datetime64(s, d.units)
        if isinstance(d, D.ComplexDescriptor):
            return complex(rand_float(rng, None, special=False), rand_float(rng, None, special=False))
        return None

    def length(self, rng, mode, lo, hi, optional=True):
        lo = max(0, lo or 0)
        hi = 4 if hi is None else min(hi, max(4, lo))
        hi = max(hi, lo)
        if mode == 'full':
            return max(lo, min(hi, rng.choice([1, 2, 3, 4])))
        return rng.randint(lo, hi)

    def field(self, cls, attr, rng, mode, depth, stack):
        """a value for one field, or raise CannotConstruct"""
        import inspect
        import numpy
        from sarpy.io.xml import descriptors as D
        d = inspect.getattr_static(cls, attr, None)
        v = self.prim(d, rng, cls, attr)
        if v is not None:
            return v
        if isinstance(d, D.UnitVectorDescriptor):
            vec = [rng.uniform(-1, 1) * 10 ** rng.randint(-3, 6) for _ in range(3)]
            if rng.random() < 0.2:
                vec = rng.choice([[1.0, 0.0, 0.0], [0.0, -1.0, 0.0], [0.6, 0.8, 0.0], [3.0, 4.0, 12.0]])
            if not any(vec):
                vec[0] = 1.0
            try:
                return d.the_type.from_array(vec)
            except Exception:
                return self.instance(d.the_type, rng, mode, depth + 1, stack)
        if isinstance(d, D.SerializableDescriptor):
            return self.instance(d.the_type, rng, mode, depth + 1, stack)
        if isinstance(d, D.SerializableListDescriptor):
            n = self.length(rng, mode, 0, None)
            return [self.instance(d.child_type, rng, mode, depth + 1, stack) for _ in range(n)]
        if isinstance(d, D.ParametersDescriptor):
            n = self.length(rng, mode, 0, None)
            out = OrderedDict()
            for _ in range(n):
                out[self.string(rng)[:40] + str(9 - len(out))] = self.string(rng)      # names never in code-point order of insertion
            return out
        if isinstance(d, D.StringListDescriptor):
            return [self.string(rng) for _ in range(self.length(rng, mode, d.minimum_length, d.maximum_length))]
        if isinstance(d, D.IntegerListDescriptor):
            return [rand_int(rng) for _ in range(self.length(rng, mode, d.minimum_length, d.maximum_length))]
        if isinstance(d, D.FloatListDescriptor):
            return [rand_float(rng) for _ in range(self.length(rng, mode, d.minimum_length, d.maximum_length))]
        if isinstance(d, D.FloatArrayDescriptor):
            n = self.length(rng, mode, d.minimum_length, d.maximum_length)
            if rng.random() < 0.3 and d.minimum_length <= 4 <= d.maximum_length:
                n = rng.randint(max(d.minimum_length, 0), 4)
            return numpy.array([rand_float(rng, None, special=False) if rng.random() < 0.8 else rand_float(rng) for _ in range(n)], dtype='float64')
        if hasattr(d, 'child_type') and hasattr(d, 'child_tag'):      # SerializableArrayDescriptor, SerializableCPArrayDescriptor
            lo, hi = getattr(d, 'minimum_length', 0), getattr(d, 'maximum_length', None)
            n = self.length(rng, mode, lo, hi)
            return [self.instance(d.child_type, rng, mode, depth + 1, stack) for _ in range(n)]
        if isinstance(d, property):
            return self.property_value(cls, attr, d, rng, mode, depth, stack)
        if d is None:
            return SKIP      # a name in _fields without a descriptor: nothing can be assigned through the constructor
        raise CannotConstruct(f'{cls.__name__}.{attr}: no generator for {type(d).__name__}')

    def property_value(self, cls, attr, d, rng, mode, depth, stack):
        """property-backed fields of classes outside the tables: a few name-driven recipes; read-only ones are derived"""
        import numpy
        if d.fset is None:
            return SKIP
        if attr == 'Coefs':
            two = 'order2' in cls._fields or cls.__name__ in ('Poly2DType',)
            if cls.__name__ in ('BankCustomType', 'KernelCustomType', '_CustomType'):
                two = True
            # orders 0..5 in either variable; patterns: all zero, all non-zero, sparse mixes; -0.0, denormals, huge values from the pool
            n1, n2 = rng.randint(1, 6), rng.randint(1, 6)
            pat = rng.choice(['zero', 'dense', 'sparse', 'sparse', 'pool'])

            def coef():
                if pat == 'zero':
                    return rng.choice([0.0, 0.0, 0.0, -0.0])
                if pat == 'dense':
                    return rng.choice([1.0, -2.5, 1e-7, 123456789.12345679, 5e-324, 1e308, 0.1])
                if pat == 'sparse':
                    return rng.choice([0.0, 0.0, -0.0, 1.0, 2.2250738585072014e-308, -1e308, 0.30000000000000004])
                return rand_float(rng, None, special=False)
            if two:
                return numpy.array([[coef() for _ in range(n2)] for _ in range(n1)], dtype='float64')
            return numpy.array([coef() for _ in range(n1)], dtype='float64')
        if attr in ('ECF',):
            return [rng.uniform(-7e6, 7e6) for _ in range(3)]
        if attr in ('LLH',):
            return SKIP          # derived from ECF by the class
        if attr == 'NODATA':
            return rng.choice(['00', 'ff00', '7f800000'])
        if attr == 'LocalDateTime':
            return rng.choice(['2020-01-02T03:04:05', '1999-12-31T23:59:59'])
        if attr == 'RcvFMRate':
            return rand_float(rng, None, special=False)
        if attr in ('Endpoint', 'Vertex'):
            import sys as _sys
            t = getattr(_sys.modules[cls.__module__], 'LatLonArrayElementType', None)
            if t is None:
                return SKIP
            n = rng.randint(2, 4) if attr == 'Endpoint' else rng.randint(3, 5)
            return [self.instance(t, rng, 'full', depth + 1, stack) for _ in range(n)]
        if attr == 'LUTValues':
            n, k = rng.randint(1, 5), rng.randint(1, 3)
            dt = rng.choice(['uint8', 'uint16'])
            hi = 255 if dt == 'uint8' else 65535
            arr = numpy.array([[rng.choice([0, 1, 9, 10, hi, rng.randint(0, hi)]) for _ in range(k)] for _ in range(n)], dtype=dt)
            if dt == 'uint16':
                arr[0, 0] = 65535      # the XML carries no bit depth: a 16-bit table is recognised by its content (documented canonical form)
            return arr
        if attr == 'RemapLUT':
            n = rng.randint(1, 5)
            if cls.__name__ == 'ColorDisplayRemapType':
                return numpy.array([[rng.randint(0, 255) for _ in range(3)] for _ in range(n)], dtype='uint8')
            return numpy.array([rng.randint(0, 255) for _ in range(n)], dtype='uint8')
        return SKIP

    def instance(self, cls, rng, mode, depth=0, stack=()):
        """mode: 'min' (required fields only), 'full', ('only', f) (required + f), ('without', f) (all but the optional f),
        'random' (required + random optional subset), 'lenient' (random subset of ALL fields: required ones may be missing).
        `_choice` groups are honoured: at most one member is populated (exactly one if the group is required, or in 'full')."""
        import inspect
        q = cls.__module__ + '.' + cls.__qualname__
        kw = {}
        deep = depth >= 5 or q in stack
        top = depth == 0
        sub = mode if isinstance(mode, str) else 'random'
        # choice groups
        banned, kept_must = set(), set()
        for ch in getattr(cls, '_choice', ()) or ():
            coll = [a for a in ch['collection'] if a in cls._fields]
            if not coll:
                continue
            creq = bool(ch.get('required', False))
            if isinstance(mode, tuple) and top and mode[0] == 'only' and mode[1] in coll:
                keep = mode[1]
            elif isinstance(mode, tuple) and top and mode[0] == 'without' and mode[1] in coll:
                others = [a for a in coll if a != mode[1]]
                keep = rng.choice(others) if others else None
            elif creq or sub == 'full':
                keep = rng.choice(coll)
            elif sub == 'min':
                keep = None
            else:
                keep = rng.choice(coll) if rng.random() < 0.6 else None
            banned |= {a for a in coll if a != keep}
            if keep is not None and (creq or sub == 'full' or (isinstance(mode, tuple) and top)):
                kept_must.add(keep)
        for attr in cls._fields:
            req = attr in cls._required
            d = inspect.getattr_static(cls, attr, None)
            forced = (bool(getattr(d, 'required', False)) and bool(getattr(d, 'strict', False))) or \
                (attr == 'Coefs' and isinstance(d, property))
            if attr in banned and not forced:
                continue
            in_choice = attr in kept_must
            must = forced or (req and mode != 'lenient') or in_choice
            if must:
                pass
            elif isinstance(mode, tuple) and top:
                if mode[0] == 'only' and attr != mode[1]:
                    continue
                if mode[0] == 'without' and attr == mode[1]:
                    continue
            elif sub == 'min':
                continue
            elif sub == 'full':
                pass
            elif sub in ('random', 'lenient'):
                if rng.random() > (0.8 if in_choice else 0.5):
                    continue
            if deep and not must:
                continue
            if depth >= 9:
                raise CannotConstruct(f'{q}: required fields nest deeper than 9 levels')
            try:
                v = self.field(cls, attr, rng, 'full' if (isinstance(mode, tuple) and top) else sub, depth, stack + (q,))
            except RecursionError:
                raise CannotConstruct(f'{q}.{attr}: recursion')
            if v is SKIP:
                continue
            kw[attr] = v
        try:
            return cls(**kw)
        except Exception as e:
            raise CannotConstruct(f'{q}(**{sorted(kw)}): {type(e).__name__}: {e}')


SKIP = object()
MISSING = object()
COUNTERS = {'empty_collection_equals_absent': 0}


# ------------------------------------------------------------------------------------------------ oracle on the implementation

def fbits(x):
    return struct.pack('>d', float(x))


def canon_fields(cls):
    """fields whose descriptor canonicalises on assignment: compared to rounding error, not bit for bit"""
    import inspect
    from sarpy.io.xml import descriptors as D
    out = {}
    for a in cls._fields:
        d = inspect.getattr_static(cls, a, None)
        if isinstance(d, D.FloatModularDescriptor):
            out[a] = ('mod', d.limit)
        elif isinstance(d, D.UnitVectorDescriptor):
            out[a] = ('unit', None)
    return out


def close(a, b, canon):
    a, b = float(a), float(b)
    if a == b:
        return True
    if canon[0] == 'mod':
        lim = canon[1]
        dlt = abs(a - b)
        dlt = min(dlt, abs(dlt - 2 * lim))
        return dlt <= 1e-9 * max(1.0, lim)
    return abs(a - b) <= 4e-15 * max(1.0, abs(a), abs(b))


def compare(a, b, path, diffs, xml, canon=None):
    """field-by-field comparison; appends (path, what) to diffs.  xml=True: an empty collection and an absent one are the same
    (they have the same XML); canon: tolerance class for canonicalising descriptors"""
    import numpy
    from sarpy.io.xml.base import Serializable, SerializableArray, ParametersCollection
    if len(diffs) > 20:
        return

    def empty(v):
        if v is None:
            return True
        if isinstance(v, (list, tuple, dict)):
            return len(v) == 0
        if isinstance(v, SerializableArray):
            return v.size == 0
        if isinstance(v, ParametersCollection):
            return not v.get_collection()
        if isinstance(v, numpy.ndarray):
            return v.size == 0
        return False

    if a is None or b is None:
        if a is None and b is None:
            return
        if xml and empty(a) and empty(b):
            COUNTERS['empty_collection_equals_absent'] += 1
            return
        diffs.append((path, f'presence: {"absent" if a is None else type(a).__name__} -> {"absent" if b is None else type(b).__name__}', a, b))
        return
    if isinstance(a, Serializable):
        if type(a) is not type(b):
            diffs.append((path, f'class {type(a).__name__} -> {type(b).__name__}', a, b))
            return
        cf = canon_fields(type(a))
        for f in a._fields:
            try:
                va = getattr(a, f)
            except AttributeError:
                va = MISSING
            try:
                vb = getattr(b, f)
            except AttributeError:
                vb = MISSING
            if va is MISSING or vb is MISSING:
                # a name listed in _fields that is not an attribute of the instance: the same on both sides is no loss
                if va is not vb:
                    diffs.append((path + '.' + f, 'attribute exists on one side only', a, b))
                continue
            compare(va, vb, path + '.' + f, diffs, xml, cf.get(f, canon if canon and canon[0] == 'unit' else None))
        return
    if isinstance(a, SerializableArray):
        if not isinstance(b, SerializableArray):
            diffs.append((path, f'container {type(a).__name__} -> {type(b).__name__}', a, b))
            return
        if a.size != b.size:
            diffs.append((path, f'array length {a.size} -> {b.size}', a, b))
            return
        for i in range(a.size):
            compare(a[i], b[i], f'{path}[{i}]', diffs, xml, canon)
        return
    if isinstance(a, ParametersCollection):
        da = list((a.get_collection() or {}).items())
        db = list((b.get_collection() or {}).items()) if isinstance(b, ParametersCollection) else None
        if da != db:
            diffs.append((path, f'parameters {da[:3]!r} -> {None if db is None else db[:3]!r}', a, b))
        return
    if isinstance(a, (list, tuple)):
        if not isinstance(b, (list, tuple)) or len(a) != len(b):
            diffs.append((path, f'list length {len(a)} -> {len(b) if isinstance(b, (list, tuple)) else type(b).__name__}', a, b))
            return
        for i, (x, y) in enumerate(zip(a, b)):
            compare(x, y, f'{path}[{i}]', diffs, xml, canon)
        return
    if isinstance(a, numpy.ndarray):
        if not isinstance(b, numpy.ndarray) or a.shape != b.shape or a.dtype != b.dtype:
            diffs.append((path, f'ndarray {a.dtype}{a.shape} -> {getattr(b, "dtype", type(b).__name__)}{getattr(b, "shape", "")}', a, b))
            return
        if a.dtype == object:
            for i, (x, y) in enumerate(zip(a.ravel(), b.ravel())):
                compare(x, y, f'{path}[{i}]', diffs, xml, canon)
        elif a.tobytes() != b.tobytes():
            if canon is not None and a.dtype.kind == 'f' and all(close(x, y, canon) for x, y in zip(a.ravel(), b.ravel())):
                return
            k = next(i for i, (x, y) in enumerate(zip(a.ravel(), b.ravel())) if numpy.array(x).tobytes() != numpy.array(y).tobytes())
            diffs.append((path, f'ndarray element {k}: {a.ravel()[k]!r} -> {b.ravel()[k]!r}', a, b))
        return
    if isinstance(a, numpy.datetime64):
        if not isinstance(b, numpy.datetime64) or a.dtype != b.dtype or a != b:
            diffs.append((path, f'datetime {a!r} -> {b!r}', a, b))
        return
    if isinstance(a, (bool, numpy.bool_)):
        if not isinstance(b, (bool, numpy.bool_)) or bool(a) != bool(b):
            diffs.append((path, f'bool {a!r} -> {b!r}', a, b))
        return
    if isinstance(a, (int, numpy.integer)):
        if isinstance(b, (bool, numpy.bool_)) or not isinstance(b, (int, numpy.integer)) or int(a) != int(b):
            diffs.append((path, f'int {a!r} -> {b!r}', a, b))
        return
    if isinstance(a, (float, numpy.floating)):
        if not isinstance(b, (float, numpy.floating)):
            diffs.append((path, f'float {a!r} -> {type(b).__name__} {b!r}', a, b))
        elif fbits(a) != fbits(b):
            if canon is not None and close(a, b, canon):
                return
            diffs.append((path, f'float {float(a)!r} ({fbits(a).hex()}) -> {float(b)!r} ({fbits(b).hex()})', a, b))
        return
    if isinstance(a, complex):
        if not isinstance(b, complex) or fbits(a.real) != fbits(b.real) or fbits(a.imag) != fbits(b.imag):
            diffs.append((path, f'complex {a!r} -> {b!r}', a, b))
        return
    if isinstance(a, str):
        if not isinstance(b, str) or a != b:
            diffs.append((path, f'str {a[:60]!r} -> {b[:60] if isinstance(b, str) else b!r}', a, b))
        return
    if isinstance(a, dict):
        if not isinstance(b, dict) or list(a.keys()) != list(b.keys()):
            diffs.append((path, f'dict keys {list(a)[:5]} -> {list(b)[:5] if isinstance(b, dict) else type(b).__name__}', a, b))
            return
        for k in a:
            compare(a[k], b[k], f'{path}[{k!r}]', diffs, xml, canon)
        return
    if a != b:
        diffs.append((path, f'{type(a).__name__} {a!r} -> {b!r}', a, b))


def family_urn(cls):
    mod = cls.__module__
    for p, u in FAMILY_URN.items():
        if mod.startswith(p):
            return u
    for v in ('1', '2', '3'):
        if mod.startswith(f'sarpy.io.product.sidd{v}_elements'):
            import importlib
            return importlib.import_module(f'sarpy.io.product.sidd{v}_elements.SIDD').SIDDType.get_xmlns_collection()
    return 'urn:unknown'


def to_xml(x, urn, is_root):
    if is_root and urn == 'default':
        return x.to_xml_bytes()
    return x.to_xml_bytes(urn=urn)


def from_xml(cls, b, is_root):
    from sarpy.io.xml.base import parse_xml_from_string
    if is_root:
        return cls.from_xml_string(b)
    root, xml_ns = parse_xml_from_string(b)
    return cls.from_node(root, xml_ns, ns_key='default' if (xml_ns is not None and 'default' in xml_ns) else None)


_tmpdir = [None]


def _first_diff(a, b):
    i = next((k for k in range(min(len(a), len(b))) if a[k] != b[k]), min(len(a), len(b)))
    return '%d: ...%r vs ...%r' % (i, a[max(0, i - 50):i + 50], b[max(0, i - 50):i + 50])


def oracle(cls, x, is_root, urns):
    """the property on the implementation alone; returns (failures, xml bytes per urn variant)"""
    fails = []
    out = {}
    reser = {}
    for uname, urn in urns:
        step = 'to_xml_bytes'
        try:
            b = to_xml(x, urn, is_root)
            out[uname] = b
            step = 'from_xml'
            y = from_xml(cls, b, is_root)
            diffs = []
            compare(x, y, cls.__name__, diffs, xml=True)
            for p, w, ra, rb in diffs:
                fails.append(dict(kind='xml', variant=uname, path=p, what=w, _raw=(ra, rb)))
            step = 'to_xml_bytes of the re-parsed structure'
            b2 = to_xml(y, urn, is_root)
            reser[uname] = b2
            if b2 != b:
                i = next((k for k in range(min(len(b), len(b2))) if b[k] != b2[k]), min(len(b), len(b2)))
                fails.append(dict(kind='xml-stability', variant=uname, path=cls.__name__, _raw=(b, b2),
                                  what=f'serialising the re-parsed structure differs at byte {i}: ...{b[max(0, i - 40):i + 40]!r} vs ...{b2[max(0, i - 40):i + 40]!r}'))
        except Exception as e:
            fails.append(dict(kind='xml-exception', variant=uname, path=cls.__name__, what=f'{step} raised {type(e).__name__}: {str(e)[:300]}'))
    # the other documented ways in and out must agree with the ones used above: from_node with ns_key left out (documented fallback to the
    # 'default' entry of xml_ns; the SIO reader calls it so), and - for the top-level types - from_xml_file, to_xml_string(**kw) ==
    # to_xml_bytes(**kw).decode() for the documented keyword forms, and the parse of what to_xml_string() writes
    for uname, urn in urns:
        b = out.get(uname)
        ref = reser.get(uname)
        if b is None or ref is None or (not is_root and len(b) % 2):       # every top-level instance, every second one of the others
            continue
        try:
            from sarpy.io.xml.base import parse_xml_from_string
            root, xml_ns = parse_xml_from_string(b)
            if xml_ns is not None and 'default' in xml_ns:
                alt = to_xml(cls.from_node(root, xml_ns), urn, is_root)
                if alt != ref:
                    fails.append(dict(kind='xml-entry-point', variant=uname, path=cls.__name__, _raw=(ref, alt),
                                      what='from_node(root, xml_ns) without ns_key gives another structure than with ns_key=\'default\': serialisations differ at byte ' + _first_diff(ref, alt)))
            if is_root and _tmpdir[0]:
                path = os.path.join(_tmpdir[0], 'x.xml')
                with open(path, 'wb') as fh:
                    fh.write(b)
                alt = to_xml(cls.from_xml_file(path), urn, is_root)
                if alt != ref:
                    fails.append(dict(kind='xml-entry-point', variant=uname, path=cls.__name__, _raw=(ref, alt),
                                      what='from_xml_file gives another structure than from_xml_string: serialisations differ at byte ' + _first_diff(ref, alt)))
        except Exception as e:
            fails.append(dict(kind='xml-exception', variant=uname, path=cls.__name__, what=f'alternative entry point raised {type(e).__name__}: {str(e)[:300]}'))
    if is_root:
        import inspect as _inspect
        try:
            tag_default = _inspect.signature(x.to_xml_string).parameters.get('tag')
            kws = [('no arguments', {})]
            fu = family_urn(cls)
            kws.append(('urn', {'urn': fu}))
            if tag_default is not None and isinstance(tag_default.default, str):
                kws.append(('tag', {'tag': tag_default.default}))
            for nm, kw in kws:
                s_, b_ = x.to_xml_string(**kw), x.to_xml_bytes(**kw)
                if not isinstance(s_, str) or s_ != b_.decode('utf-8'):
                    fails.append(dict(kind='xml-string-api', variant=nm, path=cls.__name__,
                                      what=f'to_xml_string({nm}) is not to_xml_bytes({nm}).decode(): ' + _first_diff(b_, s_.encode('utf-8') if isinstance(s_, str) else b'')))
            y2 = cls.from_xml_string(x.to_xml_string())
            diffs = []
            compare(x, y2, cls.__name__, diffs, xml=True)
            for p_, w_, ra, rb in diffs:
                # same family as the byte round trip above (the listed string-edge findings are classified there)
                fails.append(dict(kind='xml', variant='parse of to_xml_string()', path=p_, what=w_, _raw=(ra, rb)))
        except Exception as e:
            fails.append(dict(kind='xml-string-api', variant='reparse', path=cls.__name__,
                              what=f'to_xml_string() / its parse raised {type(e).__name__}: {str(e)[:300]}'))
    step = 'to_dict'
    try:
        d = x.to_dict()
        step = 'from_dict'
        z = cls.from_dict(_copy.deepcopy(d))
        diffs = []
        compare(x, z, cls.__name__, diffs, xml=False)
        for p, w, ra, rb in diffs:
            fails.append(dict(kind='dict', path=p, what=w, _raw=(ra, rb)))
        step = 'to_dict of the rebuilt structure'
        d2 = z.to_dict()
        diffs = []
        compare(d, d2, cls.__name__ + '.to_dict()', diffs, xml=False)
        for p, w, ra, rb in diffs:
            fails.append(dict(kind='dict-stability', path=p, what=w, _raw=(ra, rb)))
    except Exception as e:
        fails.append(dict(kind='dict-exception', path=cls.__name__, what=f'{step} raised {type(e).__name__}: {str(e)[:300]}'))
    try:
        w = x.copy()
        diffs = []
        compare(x, w, cls.__name__, diffs, xml=False)
        for p, wh, ra, rb in diffs:
            fails.append(dict(kind='copy', path=p, what=wh, _raw=(ra, rb)))
        if w is x:
            fails.append(dict(kind='copy', path=cls.__name__, what='copy() returned the same object'))
    except Exception as e:
        fails.append(dict(kind='copy-exception', path=cls.__name__, what=f'copy raised {type(e).__name__}: {str(e)[:300]}'))
    return fails, out


# ------------------------------------------------------------------------------------------------ model side

class ModelCodec:
    """python instance -> model value / mini tables / expected encodings (all names interned as numbers)"""

    def __init__(self, info):
        self.info = info
        self.tags = info['interned']['tags']
        self.nss = info['interned']['nss']
        self.names = info['interned']['names']
        import tables_xml
        self.tx = tables_xml

    def cid(self, cls, ctx):
        return self.info['ids'][(self.tx.qual(cls), ctx)]

    # ---- mini tables
    def mini(self, root_cid):
        order, seen = [], {}

        def visit(i):
            if i in seen:
                return
            seen[i] = len(order)
            order.append(i)
            rows = self.info['tables'][self.info['order'][i]]
            for r in (rows if isinstance(rows, list) else []):
                if 'cid' in r:
                    visit(r['cid'])
        visit(root_cid)
        return order, seen

    def qn(self, t):
        return f'{self.nss.get(t[0])}:{self.tags.get(t[1])}'

    def encode_tabs(self, order, seen, texts):
        """mini tables of one request; constants travel as the ids of their texts"""
        cls_s = []
        for i in order:
            key = self.info['order'][i]
            rows = self.info['tables'][key]
            if rows is None:
                cls_s.append('C')
                continue
            if isinstance(rows, dict):
                sp = rows['poly']
                a0 = lambda n_: f'0:{self.tags.get(n_)}'
                fill = texts.get(poly_fmt(self.info['classes'][key[0]], sp)(0.0))
                w = '-' if sp['wrap_q'] is None else f'{self.qn(sp["wrap_q"][0])}:{self.qn(sp["wrap_q"][1])}'
                cls_s.append('Y' + ':'.join([('1' if sp['two'] else '0'), self.qn(sp['coef_q']), self.qn(sp['pcoef_q']), a0(sp['dim1']), a0(sp['pdim1']),
                                             a0(sp['dim2']), a0(sp['pdim2']), a0(sp['exp1']), a0(sp['pexp1']), a0(sp['exp2']), a0(sp['pexp2']),
                                             str(sp['off']), str(self.tx.PRIM_ID['float']), str(self.names.get(sp['dname'])), str(fill), w]))
                continue
            rs = []
            for r in rows:
                k = r['kind']
                if k in ('prim', 'attr', 'text', 'primlist'):
                    kk = {'prim': 'p', 'attr': 'a', 'text': 't', 'primlist': 'm'}[k] + str(self.tx.PRIM_ID[r['prim']])
                elif k == 'child':
                    kk = f'c{seen[r["cid"]]}'
                elif k == 'list':
                    kk = f'l{seen[r["cid"]]}'
                elif k == 'array':
                    sz = '-:-' if r['size'] is None else f'0:{self.tags.get(r["size"])}'
                    ip = '-' if r['idxpos'] is None else str(r['idxpos'])
                    lb = '-' if not r['labels'] else '.'.join(str(texts.get(l)) for l in r['labels'])
                    kk = f'y{seen[r["cid"]]}:{self.qn(r["ctag"])}:{self.qn(r["pctag"])}:{sz}:0:{self.tags.get(r["psize"])}:{r["minlen"]}:{r["maxlen"]}:{ip}:{lb}:{r["idxlimit"]}'
                elif k == 'floatarr':
                    kk = (f'f{self.tx.PRIM_ID[r["prim"]]}:{self.qn(r["ctag"])}:{self.qn(r["pctag"])}:0:{self.tags.get(r["size"])}:0:{self.tags.get(r["psize"])}'
                          f':0:{self.tags.get(r["idxattr"])}:{r["base"]}')
                elif k == 'params':
                    kk = f'q{seen[r["cid"]]}:' + ('-' if not r.get('wrap') else f'{self.qn(r["wrap"][0])}:{self.qn(r["wrap"][1])}')
                elif k == 'count':
                    kk = f'n{self.tx.PRIM_ID[r["prim"]]}:{r["src"]}'
                elif k == 'const':
                    kk = f'k{self.tx.PRIM_ID[r["prim"]]}:{texts.get(self.tx.const_text(r))}:{1 if r["as_attr"] else 0}'
                elif k == 'which':
                    kk = f'w{self.tx.PRIM_ID[r["prim"]]}:' + ('/'.join(f'{i_}.{texts.get(a_)}' for i_, a_ in r['alts']) or '-')
                else:
                    raise Infra(f'encode_tabs: row kind {k}')
                rs.append(f'{self.names.get(r["name"])}:{self.qn(r["tag"])}:{self.qn(r["ptag"])}:{1 if r["required"] else 0}:{kk}')
            cls_s.append('R' + ','.join(rs))
        return ';'.join(cls_s)

    # ---- texts
    @staticmethod
    def prim_text(x, attr, v, as_attr):
        """what serialize_plain / serialize_attribute write for a primitive (base.py l.1040-1045, 1096-1117)"""
        import numpy
        fmt = x._get_formatter(attr)
        if as_attr:
            return fmt(v)
        if isinstance(v, (bool, numpy.bool_)):
            return 'true' if v else 'false'
        if isinstance(v, str):
            return v
        if isinstance(v, numpy.datetime64):
            s = str(v)
            return s if s.endswith('Z') else s + 'Z'
        return fmt(v)


def poly_fmt(cls, sp):
    """the formatting function a coefficient array class applies to its coefficients (`self._get_formatter(<key>)`)"""
    entry = cls._numeric_format.get(sp['fmt_key'])
    if isinstance(entry, str):
        return ('{0:' + entry + '}').format
    return entry if callable(entry) else str


class Texts:
    """texts interned as numbers; a canonical decimal natural n is SIZE_BASE + n on both sides (the model's str(n) / int(text))"""

    def __init__(self):
        self.ids = {}
        self.names = []

    def get(self, s):
        if isinstance(s, str) and s.isascii() and s.isdigit() and (s == '0' or s[0] != '0') and len(s) < 30:
            return SIZE_BASE + int(s)
        if s not in self.ids:
            self.ids[s] = len(self.names)
            self.names.append(s)
        return self.ids[s]

    def name(self, i):
        return str(i - SIZE_BASE) if i >= SIZE_BASE else self.names[i]


def et_to_tokens(node, nsmap, mc, texts, toks):
    """real ElementTree node -> the driver's node encoding (prefixes resolved back through the declared namespaces)"""
    def qname(tag):
        if tag.startswith('{'):
            uri, loc = tag[1:].split('}')
            ns = nsmap.get(uri, '?' + uri)
        else:
            ns, loc = None, tag
        return f'{mc.nss.get(ns)}:{mc.tags.get(loc)}'
    attrs = [f'{qname(k)}:{texts.get(v)}' for k, v in node.attrib.items()]
    kids = list(node)
    tx = node.text
    if kids:
        tx = None if (tx is None or not tx.strip()) else tx
    else:
        tx = '' if tx is None else tx
    toks.append(f'E{qname(node.tag)}:{len(attrs)}:{"-" if tx is None else texts.get(tx)}:{len(kids)}')
    toks.extend(attrs)
    for k in kids:
        et_to_tokens(k, nsmap, mc, texts, toks)


def raw_node_tokens(node, mc, texts, toks):
    """node produced by to_node directly (tags are literal 'prefix:local' strings)"""
    def qname(tag):
        ns, _, loc = tag.rpartition(':')
        return f'{mc.nss.get(ns or None)}:{mc.tags.get(loc)}'
    attrs = [f'{qname(k)}:{texts.get(v)}' for k, v in node.attrib.items()]
    kids = list(node)
    tx = node.text
    if kids:
        tx = None if (tx is None or not tx.strip()) else tx
    else:
        tx = '' if tx is None else tx
    toks.append(f'E{qname(node.tag)}:{len(attrs)}:{"-" if tx is None else texts.get(tx)}:{len(kids)}')
    toks.extend(attrs)
    for k in kids:
        raw_node_tokens(k, mc, texts, toks)


def value_tokens(x, gcid, mc, seen, texts, toks, for_dict):
    """python instance of model class gcid -> model value token stream"""
    import numpy
    from sarpy.io.xml.base import SerializableArray, ParametersCollection
    rows = mc.info['tables'][mc.info['order'][gcid]]
    if rows is None:
        # hand-written class: its node body is the black box; take it from its own to_node
        ctx = mc.info['order'][gcid][1]
        node = x.to_node(ElementTree.ElementTree(), 'X', ns_key=ctx)
        sub = []
        raw_node_tokens(node, mc, texts, sub)
        head = sub[0].split(':')
        toks.append(f'B{head[2]}:{head[3]}:{head[4]}')
        toks.extend(sub[1:])
        return
    if isinstance(rows, dict):
        # coefficient array: the value is the array itself (1-D: list of coefficients; 2-D: list of rows)
        sp = rows['poly']
        fmt = x._get_formatter(sp['fmt_key'])
        co = x.Coefs
        if sp['two']:
            toks.append(f'N{co.shape[0]}')
            for row in co:
                toks.append(f'N{len(row)}')
                toks.extend(f'P{texts.get(fmt(v))}' for v in row)
        else:
            toks.append(f'N{co.shape[0]}')
            toks.extend(f'P{texts.get(fmt(v))}' for v in co)
        return
    toks.append(f'N{len(rows)}')
    for r in rows:
        k = r['kind']
        if k in ('count', 'const', 'which'):
            toks.append('A')      # derived: carries no information
            continue
        v = getattr(x, r['name'])
        if v is None:
            toks.append('A')
        elif k in ('prim', 'attr'):
            toks.append(f'P{texts.get(mc.prim_text(x, r["name"], v, k == "attr"))}')
        elif k == 'child' and r['cls'] == mc.tx.SYN_COMPLEX:
            fmt = x._get_formatter(r['name'])
            toks.append('N2')
            toks.append(f'P{texts.get(fmt(v.real))}')
            toks.append(f'P{texts.get(fmt(v.imag))}')
        elif k == 'child':
            value_tokens(v, r['cid'], mc, seen, texts, toks, for_dict)
        elif k == 'params':
            d = v.get_collection() if isinstance(v, ParametersCollection) else v
            if not d and not for_dict:
                toks.append('A')
            elif d is None:
                toks.append('A')
            else:
                toks.append(f'N{len(d)}')
                for kk, vv in d.items():
                    toks.append('N2')
                    toks.append(f'P{texts.get(kk)}')
                    toks.append(f'P{texts.get(vv if isinstance(vv, str) else str(vv))}')
        elif k in ('list', 'array'):
            items = list(v) if not isinstance(v, SerializableArray) else ([] if v.size == 0 else list(v.get_array()))
            if not items and not for_dict:
                toks.append('A')
            else:
                toks.append(f'N{len(items)}')
                for it in items:
                    value_tokens(it, r['cid'], mc, seen, texts, toks, for_dict)
        elif k in ('primlist', 'floatarr'):
            if len(v) == 0 and not for_dict:
                toks.append('A')
            else:
                toks.append(f'N{len(v)}')
                fmt = x._get_formatter(r['name'])
                for it in v:
                    toks.append(f'P{texts.get(it if isinstance(it, str) else fmt(it))}')
        else:
            raise Infra(f'value_tokens: row kind {k}')


def dict_tokens(x, gcid, mc, texts, toks):
    """expected dict form, built from the implementation's own to_dict() walked along the tables"""
    d = x.to_dict()
    _dict_tokens(x, d, gcid, mc, texts, toks)


def _dict_tokens(x, d, gcid, mc, texts, toks):
    from sarpy.io.xml.base import SerializableArray, ParametersCollection
    rows = mc.info['tables'][mc.info['order'][gcid]]
    if rows is None:
        sub = []
        value_tokens(x, gcid, mc, None, texts, sub, True)
        toks.extend(sub)
        return
    if isinstance(rows, dict):
        sp = rows['poly']
        fmt = x._get_formatter(sp['fmt_key'])
        keys = list(d.keys())
        if keys != [sp['dname']]:
            toks.append(f'?polykeys:{keys}')
            return
        co = d[sp['dname']]
        toks += ['D1', f'K{mc.names.get(sp["dname"])}', f'L{len(co)}']
        for e in co:
            if sp['two']:
                toks.append(f'L{len(e)}')
                toks.extend(f'P{texts.get(fmt(v))}' for v in e)
            else:
                toks.append(f'P{texts.get(fmt(e))}')
        return
    byname = {r['name']: r for r in rows}
    keys = list(d.keys())
    toks.append(f'D{len(keys)}')
    for key in keys:
        r = byname.get(key)
        if r is None:
            toks.append(f'K?{key}')
            continue
        toks.append(f'K{mc.names.get(key)}')
        v = getattr(x, key)
        dv = d[key]
        k = r['kind']
        if k in ('count', 'const', 'which'):
            toks.append(f'P{texts.get(dv if isinstance(dv, str) else str(dv))}')
        elif k in ('prim', 'attr'):
            toks.append(f'P{texts.get(mc.prim_text(x, key, v, k == "attr"))}')
        elif k == 'child' and r['cls'] == mc.tx.SYN_COMPLEX:
            fmt = x._get_formatter(key)
            if not (isinstance(dv, dict) and list(dv.keys()) == ['Real', 'Imag']):
                toks.append(f'?complex:{dv!r}')
                continue
            toks += ['D2', f'K{mc.names.get("Real")}', f'P{texts.get(fmt(dv["Real"]))}', f'K{mc.names.get("Imag")}', f'P{texts.get(fmt(dv["Imag"]))}']
        elif k == 'child':
            _dict_tokens(v, dv, r['cid'], mc, texts, toks)
        elif k == 'params':
            toks.append(f'L{len(dv)}')
            for kk, vv in dv.items():
                toks += ['D2', f'K{mc.names.get("name")}', f'P{texts.get(kk)}', f'K{mc.names.get("value")}', f'P{texts.get(vv if isinstance(vv, str) else str(vv))}']
        elif k in ('list', 'array'):
            items = list(v) if not isinstance(v, SerializableArray) else ([] if v.size == 0 else list(v.get_array()))
            toks.append(f'L{len(dv)}')
            if len(dv) != len(items):
                toks.append('?length')
                continue
            for it, dit in zip(items, dv):
                _dict_tokens(it, dit, r['cid'], mc, texts, toks)
        elif k in ('primlist', 'floatarr'):
            fmt = x._get_formatter(key)
            toks.append(f'L{len(dv)}')
            for it in dv:
                toks.append(f'P{texts.get(it if isinstance(it, str) else fmt(it))}')


def norm_empty(tokens, texts):
    """an element without text and an element with empty text are the same XML (<a/>)"""
    e = texts.ids.get('')
    if e is None:
        return tokens
    out = []
    for t in tokens.split(','):
        if t[:1] == 'E':
            parts = t.split(':')
            if parts[3] == str(e):
                parts[3] = '-'
                t = ':'.join(parts)
        out.append(t)
    return ','.join(out)


def decode_size_texts(tokens, texts):
    """driver output: replace the model's size texts (SIZE_BASE + n) by the id of str(n)"""
    out = []
    for t in tokens.split(','):
        parts = t.split(':')
        if t[:1] == 'E' and parts[3] != '-' and int(parts[3]) >= SIZE_BASE:
            parts[3] = str(texts.get(str(int(parts[3]) - SIZE_BASE)))
            t = ':'.join(parts)
        elif t[:1].isdigit() and len(parts) == 3 and int(parts[2]) >= SIZE_BASE:
            parts[2] = str(texts.get(str(int(parts[2]) - SIZE_BASE)))
            t = ':'.join(parts)
        out.append(t)
    return ','.join(out)



# ------------------------------------------------------------------------------------------------ documents sarpy did not write

FOREIGN_OPS = ('perm-coef', 'sparse-coef', 'shuffle-index', 'dup-param', 'perm-params', 'change-derived', 'drop-derived', 'bad-size',
               'too-long', 'too-short')


def _local(t):
    return t.rsplit('}', 1)[-1]


def foreign_variant(b, op, rng, derived_tags=(), top_arrays=()):
    """one edit of a document sarpy wrote, of the kind the hand-written readers must cope with; returns new bytes or None when
    the document has no site for the edit.  Edits that can make a reader refuse the document are applied to direct children of
    the root only (a failure inside a nested structure is swallowed by SerializableDescriptor and turns into an absent field)."""
    root = ElementTree.fromstring(b)
    nodes = list(root.iter())
    done = False
    if op == 'perm-coef':
        sites = [n for n in nodes if sum(1 for ch in n if _local(ch.tag) == 'Coef') >= 2]
        if sites:
            n = rng.choice(sites)
            idx = [i for i, ch in enumerate(n) if _local(ch.tag) == 'Coef']
            chs = [n[i] for i in idx]
            for _ in range(6):
                perm = chs[:]
                rng.shuffle(perm)
                if any(x is not y for x, y in zip(perm, chs)):
                    break
            for i, ch in zip(idx, perm):
                n[i] = ch
            done = True
    elif op == 'sparse-coef':
        for n in nodes:
            for ch in list(n):
                if _local(ch.tag) == 'Coef' and ch.text is not None:
                    try:
                        v = float(ch.text)
                    except ValueError:
                        continue
                    if v == 0.0 and math.copysign(1.0, v) > 0 and rng.random() < 0.8:
                        n.remove(ch)
                        done = True
    elif op == 'shuffle-index':
        for key in ('index', 'k'):
            sites = [n for n in nodes if len(n) >= 2 and all(key in ch.attrib for ch in n)]
            if sites:
                n = rng.choice(sites)
                vals = [ch.attrib[key] for ch in n]
                vals = vals[1:] + vals[:1] if rng.random() < 0.5 else vals[::-1]
                for ch, v in zip(n, vals):
                    ch.attrib[key] = v
                done = True
                break
    elif op in ('dup-param', 'perm-params'):
        sites = [n for n in nodes if sum(1 for ch in n if 'name' in ch.attrib and len(ch) == 0) >= (1 if op == 'dup-param' else 2)]
        if sites:
            n = rng.choice(sites)
            ps = [i for i, ch in enumerate(n) if 'name' in ch.attrib and len(ch) == 0]
            if op == 'dup-param':
                first = n[ps[0]]
                dup = ElementTree.Element(first.tag, dict(first.attrib))
                dup.text = 'second value of ' + first.attrib['name'][:20]
                n.insert(ps[-1] + 1, dup)
            else:
                chs = [n[i] for i in ps][::-1]
                for i, ch in zip(ps, chs):
                    n[i] = ch
            done = True
    elif op in ('change-derived', 'drop-derived'):
        sites = [(n, ch) for n in nodes for ch in n if len(ch) == 0 and not ch.attrib and _local(ch.tag) in derived_tags and ch.text]
        if sites:
            n, ch = rng.choice(sites)
            if op == 'drop-derived':
                n.remove(ch)
            else:
                ch.text = str(int(ch.text) + 7) if ch.text.isdigit() else ch.text + 'X'
            done = True
    elif op == 'bad-size':
        sites = [ch for ch in root if _local(ch.tag) in top_arrays and (ch.attrib.get('size', '').isdigit() or ch.attrib.get('numLayers', '').isdigit())]
        if sites:
            ch = rng.choice(sites)
            key = 'size' if 'size' in ch.attrib else 'numLayers'
            ch.attrib[key] = str(int(ch.attrib[key]) + rng.choice([1, 2]))
            done = True
    elif op in ('too-long', 'too-short'):
        sites = [ch for ch in root if _local(ch.tag) in top_arrays and len(ch) >= 1 and len({c2.tag for c2 in ch}) == 1
                 and (ch.attrib.get('size', '').isdigit() or not ch.attrib) and len(ch[0]) > 0]
        if sites:
            ch = rng.choice(sites)
            if op == 'too-long':
                for _ in range(rng.choice([1, 2])):
                    ch.append(_copy.deepcopy(ch[-1]))
            else:
                for _ in range(min(len(ch), rng.choice([1, 2]))):
                    ch.remove(ch[-1])
            if 'size' in ch.attrib:
                ch.attrib['size'] = str(len(ch))
            done = True
    if not done:
        return None
    return root


def foreign_bytes(root, nsdecl):
    """serialise with the prefixes sarpy expects (default namespace unprefixed, sicommon/sfa/ism kept)"""
    for pfx, uri in nsdecl.items():
        try:
            ElementTree.register_namespace(pfx, uri)
        except ValueError:
            return None
    out = ElementTree.tostring(root, encoding='utf-8')
    # ElementTree declares only the namespaces in use; sarpy's readers insist on every prefix their class tables name
    end = out.index(b'>')
    if out[end - 1:end] == b'/':
        end -= 1
    extra = b''.join(f' xmlns:{pfx}="{uri}"'.encode() for pfx, uri in sorted(nsdecl.items()) if pfx and f'xmlns:{pfx}='.encode() not in out[:end])
    return out[:end] + extra + out[end:]

# ------------------------------------------------------------------------------------------------ classification of known defects

FAMILY = {'xml': 'xml', 'xml-stability': 'xml', 'xml-exception': 'xml', 'xml-entry-point': 'xml', 'xml-string-api': 'xml', 'dict': 'dict', 'dict-stability': 'dict', 'dict-exception': 'dict',
          'copy': 'copy', 'copy-exception': 'copy'}
ALL = ('xml', 'dict', 'copy')

# each entry: key -> (what the defect is, where).  The harness attributes a failure to a key only when the failing instance contains
# the precise trigger of that defect at (or below, or above) the failing path and the failure is of the stated family.
DEFECTS = {
    'unit-vector-renormalised-on-reassignment': 'UnitVectorDescriptor divides by the norm whenever it is not exactly 1.0: a stored unit vector whose computed norm is '
        '1 +- 1 ulp is changed in the last bit each time it is assigned again (parse, from_dict, copy), so the XML text of the re-parsed structure differs '
        '(sarpy/io/xml/descriptors.py UnitVectorDescriptor.__set__)',
    'afrl-TheObjectType-Articulation-Configuration-from-xml': 'TheObjectType.__init__ hands the XML child nodes of Articulation/Configuration to add_articulation/'
        'add_configuration, which raise TypeError for ElementTree elements: the object cannot be parsed and ObjectInfoType.Objects is silently dropped '
        '(sarpy/annotation/afrl_rde_elements/ObjectInfo.py)',
    'sidd-LocalDateTime-lost-on-xml-parse': 'ExploitationFeaturesCollectionInformationType.LocalDateTime setter does not accept the XML node handed over by from_node and '
        'sets None: the field never survives XML (sarpy/io/product/sidd{1,2,3}_elements/ExploitationFeatures.py)',
    'sidd-J2KSubtype-LayerInfo-numLayers': 'J2KSubtype.LayerInfo is written with size attribute "numLayers" but FloatArrayDescriptor reads attrib["size"]: KeyError, the '
        'J2K block is dropped by the parent (sarpy/io/product/sidd2_elements/Compression.py, sarpy/io/xml/descriptors.py FloatArrayDescriptor)',
    'sidd-LUTInfoType-codec': 'LUTInfoType.from_node iterates over the characters of the LUTValues text instead of its tokens (ValueError), and to_dict/from_dict turn '
        'uint16 tables into uint8 (OverflowError or dtype change) (sarpy/io/product/sidd2_elements/blocks.py)',
    'sidd1-MonochromeDisplayRemapType-RemapLUT': 'MonochromeDisplayRemapType.to_node/to_dict call the generic method without excluding the property-backed RemapLUT '
        '(AttributeError) and from_node passes **kwargs instead of kwargs= (sarpy/io/product/sidd1_elements/Display.py)',
    'crsd-ReceiveOnlyType-field-name': 'ReceiveOnlyType lists "ReceiveSensorType" in _fields but the descriptor is "ReceiveSensor": every to_node/to_dict/copy raises '
        'AttributeError and ReceiveSensor is never written (sarpy/io/received/crsd1_elements/ErrorParameters.py)',
    'sidd-GeoInfo-array-namespace': 'sidd2 GeoInfoType.Line/Polygon: the children of the array are written with the sicommon prefix but the container looks them up in the '
        'namespace of the parent (ValueError: size attribute n, but has 0 child nodes) (sarpy/io/product/sidd2_elements/blocks.py, SerializableArrayDescriptor)',
    'sidd-ProcessingModule-default-prefix': 'ProcessingModuleType.to_node passes the literal namespace key "default" to ParametersCollection.to_node after a parse: the '
        'parameters are written as <default:ModuleParameter> (unbound prefix) (sarpy/io/product/sidd2_elements/ProductProcessing.py)',
    'cphd1-empty-SegmentList-NumSegments': 'SegmentListType.to_node with an empty list appends <NumSegments>0</NumSegments> to the document root (parent None) '
        '(sarpy/io/phase_history/cphd1_elements/SceneCoordinates.py)',
    'moved-child-writes-its-recorded-namespace': 'a structure that was created in one namespace context (e.g. read from a SICD document: it records '
        '_xml_ns_key) and is then held by a parent of another context (a SIDD structure expecting sicommon children, or the reverse) writes its own '
        'children under the key it recorded, not the key its parent hands down: SICD -> SIDD the values are lost on re-parse, SIDD -> SICD the document '
        'has an unbound prefix (sarpy/io/xml/base.py Serializable.to_node: xml_ns_key = getattr(self, "_xml_ns_key", ns_key))',
    'moved-parameters-keep-recorded-child-tag': 'a ParametersCollection records the element name of the field it was created for; ParametersDescriptor takes a '
        'collection object over as it is, and ParametersCollection.to_node writes the recorded name, not the one of the field that holds it now: a collection '
        'created as <Parameter> and handed to a field written as <Extension> (or the reverse) is written under the wrong element name and is lost on re-parse '
        '(sarpy/io/xml/descriptors.py ParametersDescriptor.__set__, sarpy/io/xml/base.py ParametersCollection.to_node)',
    'xml-string-edge-whitespace-stripped': 'get_node_value strips the text of every node: leading/trailing whitespace of string values is lost, whitespace-only strings '
        'become empty (sarpy/io/xml/base.py get_node_value / parse_str)',
    'xml-empty-string-in-collection-becomes-None': 'an empty string in a string list or as a Parameter value is parsed back as None (get_node_value), and a Parameter value '
        'None is then written as the text "None" (sarpy/io/xml/base.py parse_parameters_collection, ParametersCollection.to_node; descriptors.StringListDescriptor)',
}


def unit_vector_tags():
    """names of every field with a UnitVectorDescriptor (the tags under which a unit vector is written)"""
    import inspect
    import tables_xml
    from sarpy.io.xml import descriptors as D
    out = set()
    classes, _ = tables_xml.all_classes()
    for c in classes.values():
        for a in c._fields:
            if isinstance(inspect.getattr_static(c, a, None), D.UnitVectorDescriptor):
                out.add(c._tag_override.get(a, a))
    return out


def _nk(k):
    return None if k in (None, 'default') else k


def find_triggers(x, path, out, depth=0, ctx=None):
    """walk an instance; record (path, key, families) for every sub-object that is a known trigger.
    ctx: the namespace key the parent hands to this object when it writes it (None for the structure that is serialised)"""
    import inspect
    import numpy
    from sarpy.io.xml import descriptors as D
    from sarpy.io.xml.base import Serializable, SerializableArray
    if depth > 40:
        return
    if isinstance(x, SerializableArray):
        for i in range(x.size):
            find_triggers(x[i], f'{path}[{i}]', out, depth + 1, ctx)
        return
    if isinstance(x, (list, tuple)):
        for i, it in enumerate(x):
            find_triggers(it, f'{path}[{i}]', out, depth + 1, ctx)
        return
    if isinstance(x, numpy.ndarray) and x.dtype == object:
        for i, it in enumerate(x.ravel()):
            find_triggers(it, f'{path}[{i}]', out, depth + 1, ctx)
        return
    if not isinstance(x, Serializable):
        return
    n, mod = type(x).__name__, type(x).__module__
    # an object that was created in one namespace context (it records the key) and is written by a parent of another one
    own = ctx
    if '_xml_ns_key' in getattr(x, '__dict__', {}):
        own = _nk(x.__dict__['_xml_ns_key'])
        if depth > 0 and own != ctx:
            out.append((path, 'moved-child-writes-its-recorded-namespace', ('xml',)))

    def get(f):
        try:
            return getattr(x, f)
        except AttributeError:
            return None
    if n == 'TheObjectType' and 'afrl_rde_elements' in mod and (get('Articulation') or get('Configuration')):
        out.append((path, 'afrl-TheObjectType-Articulation-Configuration-from-xml', ('xml',)))
    if n == 'ExploitationFeaturesCollectionInformationType' and get('LocalDateTime') is not None:
        out.append((path, 'sidd-LocalDateTime-lost-on-xml-parse', ('xml',)))
    if n == 'J2KSubtype' and get('LayerInfo') is not None and len(get('LayerInfo')) > 0:
        out.append((path, 'sidd-J2KSubtype-LayerInfo-numLayers', ('xml',)))
    if n == 'LUTInfoType' and get('LUTValues') is not None:
        out.append((path, 'sidd-LUTInfoType-codec', ALL))
    if n == 'MonochromeDisplayRemapType' and get('RemapLUT') is not None:
        out.append((path, 'sidd1-MonochromeDisplayRemapType-RemapLUT', ALL))
    if n == 'ReceiveOnlyType' and 'crsd1_elements' in mod:
        out.append((path, 'crsd-ReceiveOnlyType-field-name', ALL))
    if n == 'GeoInfoType' and 'sidd2_elements' in mod and ((get('Line') is not None and get('Line').size > 0) or (get('Polygon') is not None and get('Polygon').size > 0)):
        out.append((path, 'sidd-GeoInfo-array-namespace', ('xml',)))
    if n == 'ProcessingModuleType' and get('ModuleParameters') is not None and get('ModuleParameters').get_collection():
        out.append((path, 'sidd-ProcessingModule-default-prefix', ('xml',)))
    if n == 'ImageGridType' and 'cphd1_elements' in mod and get('SegmentList') is not None and get('SegmentList').size == 0:
        out.append((path, 'cphd1-empty-SegmentList-NumSegments', ('xml',)))
    for f in type(x)._fields:
        v = get(f)
        if v is None:
            continue
        d_ = inspect.getattr_static(type(x), f, None)
        if isinstance(d_, D.ParametersDescriptor) and getattr(v, '_child_tag', d_.child_tag) != d_.child_tag:
            # a collection created under another element name and handed to this structure as the object it is
            out.append((path + '.' + f, 'moved-parameters-keep-recorded-child-tag', ('xml',)))
        if isinstance(d_, D.UnitVectorDescriptor):
            out.append((path + '.' + f, 'unit-vector-renormalised-on-reassignment', ('stability',)))
        find_triggers(v, path + '.' + f, out, depth + 1, _nk(type(x)._child_xml_ns_key.get(f, own)))
    # children kept in private lists by hand-written classes (GeoInfo, SubRegions, ProcessingModules)
    for priv in ('_GeoInfo', '_GeoInfos', '_SubRegions', '_ProcessingModules'):
        v = getattr(x, priv, None)
        if isinstance(v, list):
            for i, it in enumerate(v):
                find_triggers(it, f'{path}.{priv}[{i}]', out, depth + 1)


def xml_text_diffs(b1, b2):
    """leaf-level differences of two documents: list of (tag path, text1, text2), or None when the element structure differs.
    One structural difference is followed rather than given up on: a childless element of the first document whose text is
    whitespace only and which has no counterpart in the second (text2 = None) - what a whitespace-only string value turns into
    once get_node_value has stripped it to None and the field is no longer written."""
    try:
        r1, r2 = ElementTree.fromstring(b1), ElementTree.fromstring(b2)
    except ElementTree.ParseError:
        return None
    out = []

    def local(t):
        return t.rsplit('}', 1)[-1]

    def ws_leaf(n):
        # (an EMPTY string entry of a string list disappears the same way: get_node_value reads it as None and the entry is not written again)
        return len(n) == 0 and (n.text is None or n.text.strip() == '')

    def walk(n1, n2, path):
        if local(n1.tag) != local(n2.tag) or list(n1.attrib) != list(n2.attrib):
            return False
        p = path + (local(n1.tag),)
        for k in n1.attrib:
            if n1.attrib[k] != n2.attrib[k]:
                out.append((p + ('@' + k,), n1.attrib[k], n2.attrib[k]))
        if len(n1) == 0 and len(n2) == 0 and (n1.text or '') != (n2.text or ''):
            out.append((p, n1.text or '', n2.text or ''))
        k1, k2 = list(n1), list(n2)
        i2 = 0
        for i1, c1 in enumerate(k1):
            t = local(c1.tag)
            more1 = sum(1 for c in k1[i1:] if local(c.tag) == t)
            more2 = sum(1 for c in k2[i2:] if local(c.tag) == t)
            if i2 < len(k2) and local(k2[i2].tag) == t and not (ws_leaf(c1) and more1 > more2):
                if not walk(c1, k2[i2], p):
                    return False
                i2 += 1
            elif ws_leaf(c1):
                out.append((p + (t,), c1.text or '', None))      # the element disappeared
            else:
                return False
        return i2 == len(k2)
    return out if walk(r1, r2, ()) else None


def near(t1, t2):
    try:
        a, b = float(t1), float(t2)
    except (TypeError, ValueError):
        return False
    return a == b or abs(a - b) <= 4e-15 * max(abs(a), abs(b), 1.0)


def stripped_equal(a, b):
    """b is what get_node_value makes of the string a"""
    if not isinstance(a, str):
        return False
    return (isinstance(b, str) and a != b and a.strip() == b) or (b is None and a.strip() == '')


def classify(f, trig, unit_tags, edge_stream):
    """key of the known defect this failure is an instance of, or None"""
    fam = FAMILY[f['kind']]
    p = f['path']
    ra, rb = f.get('_raw', (None, None))
    # (1) unit vectors: only stability failures, only last-bit differences, only inside a unit-vector element
    if f['kind'] == 'dict-stability' and isinstance(ra, float) and isinstance(rb, float) and near(ra, rb):
        comps = [c.strip("'\"") for c in p.replace(']', '').split('[')]
        if any(c in unit_tags for c in comps):
            return 'unit-vector-renormalised-on-reassignment'
    if f['kind'] == 'xml-stability' and isinstance(ra, bytes):
        d = xml_text_diffs(ra, rb)
        if d:
            keys = []
            for tp, t1, t2 in d:
                if near(t1, t2) and any(c in unit_tags for c in tp):
                    k = 'unit-vector-renormalised-on-reassignment'
                elif (t1.strip() == '' and t2 == 'None') or (t1 == '' and t2 is None):
                    k = 'xml-empty-string-in-collection-becomes-None'
                elif stripped_equal(t1, t2):
                    # (whichever stream drew the value: two serialisations that differ only in the edge whitespace of a text node ARE the
                    # listed finding - the trigger is the string value, not the stream it came from)
                    k = 'xml-string-edge-whitespace-stripped'
                else:
                    keys = None
                    break
                if k not in keys:
                    keys.append(k)
            if keys:
                return '+'.join(sorted(keys))
    # (2) the string stream with empty / whitespace-edged strings
    if edge_stream and f['kind'] == 'xml':
        if isinstance(ra, str) and stripped_equal(ra, rb) and isinstance(rb, str):
            return 'xml-string-edge-whitespace-stripped'
        if isinstance(ra, str) and rb is None and ra.strip() == '':
            return 'xml-empty-string-in-collection-becomes-None'
        if f['what'].startswith('parameters '):
            from sarpy.io.xml.base import ParametersCollection
            da = list((ra.get_collection() or {}).items()) if isinstance(ra, ParametersCollection) else None
            db = list((rb.get_collection() or {}).items()) if isinstance(rb, ParametersCollection) else None
            if da is not None and db is not None and len(da) == len(db) and all(
                    (ka == kb or stripped_equal(ka, kb)) and (va == vb or stripped_equal(va, vb)) for (ka, va), (kb, vb) in zip(da, db)):
                if any(vb is None for _, vb in db):
                    return 'xml-empty-string-in-collection-becomes-None'
                return 'xml-string-edge-whitespace-stripped'
        if f['what'].startswith('list length') and isinstance(ra, list) and all(isinstance(v, str) for v in ra):
            return 'xml-empty-string-in-collection-becomes-None' if any(v.strip() == '' for v in ra) else None
    # (3) triggers inside the instance
    for tp, key, fams in trig:
        if 'stability' in fams:
            continue
        if fam not in fams:
            continue
        if p == tp or p.startswith(tp + '.') or p.startswith(tp + '[') or tp.startswith(p + '.') or tp.startswith(p + '[') or \
                p.split('.to_dict()')[0] == tp.split('.')[0] and f['kind'] in ('dict-stability',):
            return key
    return None


# ------------------------------------------------------------------------------------------------ run

def plan(info, tier, rng):
    """(class, mode, case seed) for every class: required fields only, everything, each optional field alone (with the required
    ones), optional fields left out, random subsets of the optional fields"""
    classes = info['classes']
    n_rand = 5 if tier == 'quick' else 120
    cases = []
    for q in sorted(classes):
        c = classes[q]
        modes = ['full', 'min']
        fields = list(c._fields)
        optional = [f for f in fields if f not in c._required]
        if tier == 'quick':
            modes += [('only', f) for f in optional]
            if optional:
                modes += [('without', rng.choice(optional))]
        else:
            modes += [('only', f) for f in optional] + [('without', f) for f in optional]
        modes += ['random'] * n_rand
        if tier != 'quick':
            modes += ['full'] * 10
        for m in modes:
            cases.append((q, m, rng.getrandbits(48)))
    return cases


def run_case(gen, info, q, mode, seed):
    c = info['classes'][q]
    rng = random.Random(seed)
    if isinstance(mode, tuple) and mode[0] == 'moved':
        return c, moved_instance(gen, info, c, mode, rng)
    return c, gen.instance(c, rng, mode)


def moved_instance(gen, info, B, mode, rng):
    """('moved', donor class, donor field, receiving field): a structure of the donor class is written to XML and read back (its
    children now are objects that were created in the donor's namespace context), the child / collection held by the donor field
    is handed, as the object it is, to a fresh structure of the receiving class"""
    _, aq, fa, fb = mode
    A = info['classes'][aq]
    a = gen.instance(A, rng, ('only', fa))
    if getattr(a, fa, None) is None:
        raise CannotConstruct(f'{aq}.{fa} not populated')
    is_root = aq in set(info['roots'])
    urn = family_urn(A)
    try:
        pa = from_xml(A, to_xml(a, 'default' if is_root else urn, is_root), is_root)
    except Exception as e:
        raise CannotConstruct(f'donor {aq} does not survive XML: {type(e).__name__}')
    child = getattr(pa, fa, None)
    if child is None:
        raise CannotConstruct(f'donor {aq}.{fa} lost on parse')
    b = gen.instance(B, rng, ('only', fb))
    try:
        setattr(b, fb, child)
    except Exception as e:
        raise CannotConstruct(f'{B.__name__}.{fb} refuses the object: {type(e).__name__}')
    if getattr(b, fb, None) is None:
        raise CannotConstruct(f'{B.__name__}.{fb} did not accept the object')
    # (the receiver may keep the object itself or re-create it from its entries - either way it now holds the value)
    return b


def field_type_key(d):
    """what kind of object a field holds (objects of the same key can be handed from one owner to another)"""
    from sarpy.io.xml import descriptors as D
    import tables_xml
    if isinstance(d, D.ParametersDescriptor):
        return ('params',)
    if isinstance(d, D.SerializableDescriptor):      # not UnitVectorDescriptor: it normalises what it is given (magnitudes are the generator's business)
        return ('obj', tables_xml.qual(d.the_type))
    if isinstance(d, D.SerializableArrayDescriptor):
        return ('arr', tables_xml.qual(d.child_type), d.array_extension.__name__, d.child_tag, d.minimum_length, d.maximum_length)
    return None


def moved_plan(info, rng, tier):
    """(receiving class, ('moved', donor class, donor field, receiving field), seed): every kind of child object that several
    owners hold, handed between owners of different namespace contexts (and some of the same one)"""
    import inspect
    classes = info['classes']
    owners = {}
    for q in sorted(classes):
        c = classes[q]
        fam = next((p_ for p_ in list(FAMILY_URN) + [f'sarpy.io.product.sidd{v}_elements' for v in '123'] if q.startswith(p_)), '?')
        for f_ in c._fields:
            k = field_type_key(inspect.getattr_static(c, f_, None))
            if k is not None:
                owners.setdefault(k, []).append((q, f_, (fam, c._child_xml_ns_key.get(f_))))
    out = []
    # FORCED in every run: parameter collections of the same field name and element name (the receiver keeps the very object)
    # handed between owners whose namespace key for that field differs (SICD 'default' <-> SIDD 'sicommon' ...), both directions
    forced = 0
    by_name = {}
    for q, f_, ctx in owners.get(('params',), []):
        d_ = inspect.getattr_static(classes[q], f_, None)
        by_name.setdefault((f_, d_.child_tag), []).append((q, f_, ctx))
    for grp in by_name.values():
        for a in grp:
            for b in grp:
                if a[0] != b[0] and a[2][1] != b[2][1]:
                    for _ in range(1 if tier == 'quick' else 5):
                        out.append((b[0], ('moved', a[0], a[1], b[1]), rng.getrandbits(48)))
                        forced += 1
    info['moved_forced_same_name_params'] = forced
    per_key = 4 if tier == 'quick' else 40
    for k in sorted(owners, key=str):
        os_ = owners[k]
        if len(os_) < 2:
            continue
        pairs = [(a, b) for a in os_ for b in os_ if a[:2] != b[:2]]
        rng.shuffle(pairs)
        diff = [p_ for p_ in pairs if p_[0][2] != p_[1][2]]
        same = [p_ for p_ in pairs if p_[0][2] == p_[1][2]]
        n = per_key * (12 if k == ('params',) else 1)
        for a, b in diff[:n] + same[:max(1, n // 4)]:
            out.append((b[0], ('moved', a[0], a[1], b[1]), rng.getrandbits(48)))
    return out


def run(tier):
    sarpy_guard()
    logging.disable(logging.CRITICAL)
    chk = Check('C05', tier)
    rng = chk.rng
    import tempfile
    _tmpdir[0] = tempfile.mkdtemp(dir='/var/tmp', prefix='c05_')
    import tables_xml
    info = tables_xml.generate(os.path.join(VERIF, 'lean', 'SarpyModel', 'Gen', 'XmlTables.lean'))
    classes = info['classes']
    table_driven = sorted(q for q in classes if q not in info['outside'])
    gen_info = {
        'python_classes': len(classes), 'table_driven': len(table_driven), 'outside_generic_theorem': len(info['outside']),
        'model_classes': len(info['order']), 'reachable_from_roots': len(info['reachable']),
        'in_packages_not_reachable': sorted(set(classes) - set(info['reachable'])),
        'outside': info['outside'], 'roots': info['roots'], 'import_failures': info['import_failures'],
        'constructors_with_extra_statements': info['init_extras'], 'writer_reader_tag_mismatch_rows': [list(map(str, m)) for m in info['mismatch_rows']],
        'changed': info['changed'],
        'hand_written_classes_inside_the_model': {q: l for q, l in sorted(info['labels'].items()) if l not in ('rows', 'opaque')},
        'constructs': {l: sum(1 for v in info['labels'].values() if tables_xml.construct_family(v) == l)
                       for l in sorted({tables_xml.construct_family(v) for v in info['labels'].values()})},
        'class_notes': {q: inf['notes'] for q, (k, inf) in sorted(info['construct'].items()) if k == 'rows' and inf.get('notes')},
        'no_longer_modelled_as_expected': info['regressions'],
        'untranslated_classes': info['untranslated'], 'unreadable_rules': info['rule_failures'],
        'transcribed_functions_pinned': len(info['pins']), 'transcribed_functions_changed': info['pin_changes'],
    }
    broken = chk.prove(['SarpyModel.Props.C05', 'SarpyModel.Props.C05Bounds', 'SarpyModel.Gen.XmlTables', 'SarpyModel.Drivers'], 'SarpyModel.Props.C05',
                       'Sarpy.Props.C05', REQUIRED, gen_info, extra=[('SarpyModel.Props.C05Bounds', 'Sarpy.Props.C05Bounds', REQUIRED_BOUNDS)])
    bounds_obligations(chk, broken, os.path.join(VERIF, 'lean'))
    for m, why in info['import_failures']:
        broken.append(f'element module {m} does not import: {why}')
    for w in info['rule_failures']:
        broken.append('translator: ' + w)
    for q_, w in info['untranslated'].items():
        broken.append(f'translator could not read class {q_}: {w}')
    for k in info['pin_changes']:
        # a function of the generic machinery that Spec.XmlFmt transcribes by hand changed (normalised AST): the transcription is stale
        broken.append(f'{k} changed since Spec.XmlFmt was transcribed from it (pinned AST in translate/xml_base_pins.json)')
    for r in info['regressions']:
        # a hand-written method no longer matches the construct it was translated to: the theorems no longer speak about this class
        broken.append(f"class {r['cls']} was inside the model as '{r['expected']}' and is now '{r['now']}': {str(r['why'])[:400]}")

    mc = ModelCodec(info)
    gen = Generator()
    roots = set(info['roots'])
    fails, disagreements = [], []
    stats = dict(instances=0, cannot_construct=0, xml_round_trips=0, model_nodes_compared=0, model_parses_compared=0, model_dicts_compared=0,
                 empty_collection_equals_absent=0, oracle_failures=0)
    cannot = {}
    classes_ok, classes_seen = set(), set()
    patterns = set()
    mode_hist = {}
    drv = Driver()
    jobs = []
    foreign_cands, fjobs = [], []
    t_budget = time.time()
    cases = plan(info, tier, rng)
    for r in info['regressions']:
        # widen the search on the classes whose translation broke
        if r['cls'] in classes:
            cases += [(r['cls'], m_, rng.getrandbits(48)) for m_ in ['full'] * 40 + ['random'] * 80]
    if tier == 'quick':
        egen = Generator(edge_strings=True)
        extra = [(q, 'random', rng.getrandbits(48)) for q in rng.sample(sorted(classes), 40)]
    else:
        egen = Generator(edge_strings=True)
        extra = [(q, 'random', rng.getrandbits(48)) for q in sorted(classes) for _ in range(3)]
    samples = []
    unit_tags = unit_vector_tags()
    lenient = dict(instances=0, instances_failing=0, examples={})
    lcases = [(q, 'lenient', rng.getrandbits(48)) for q in sorted(classes) for _ in range(1 if tier == 'quick' else 10)]
    # every lenient (non-strict) enumeration / pattern field once (thorough: five times) with a value outside its domain
    import inspect as _inspect
    from sarpy.io.xml import descriptors as _D
    ncases = []
    for q in sorted(classes):
        for f_ in classes[q]._fields:
            d_ = _inspect.getattr_static(classes[q], f_, None)
            if isinstance(d_, (_D.StringEnumDescriptor, _D.IntegerEnumDescriptor, _D.StringRegexDescriptor)) and not d_.strict:
                ncases += [(q, ('only', f_), rng.getrandbits(48)) for _ in range(1 if tier == 'quick' else 5)]
    stats['lenient_enumeration_fields'] = len({(q, m[1]) for q, m, _ in ncases})
    mcases = moved_plan(info, random.Random(rng.getrandbits(48)), tier)
    for which, (q, mode, seed) in [(0, c) for c in cases] + [(1, c) for c in extra] + [(2, c) for c in lcases] + [(3, c) for c in ncases] + [(4, c) for c in mcases]:
        g = egen if which == 1 else (Generator(nonstandard={(q, mode[1])}) if which == 3 else gen)
        c = classes[q]
        mname = mode if isinstance(mode, str) else mode[0]
        try:
            _, x = run_case(g, info, q, mode, seed)
        except CannotConstruct as e:
            if which == 4:
                stats['moved_not_applicable'] = stats.get('moved_not_applicable', 0) + 1
            elif which != 2:
                stats['cannot_construct'] += 1
                cannot.setdefault(q, str(e)[:200])
            continue
        if which != 2:
            stats['instances'] += 1
            hk = mname + ('+edge-strings' if which == 1 else '+value-outside-enumeration' if which == 3 else '')
            if which == 4:
                stats['moved_children'] = stats.get('moved_children', 0) + 1
                stats['moved_forced_same_name_params'] = info.get('moved_forced_same_name_params', 0)
            mode_hist[hk] = mode_hist.get(hk, 0) + 1
            classes_seen.add(q)
        is_root = q in roots
        urn = family_urn(c)
        urns = [('default', 'default')] if is_root else [('family-urn', urn)]
        prefixed = isinstance(urn, dict)
        if not is_root and not prefixed and (mname in ('full', 'random')):
            urns.append(('no-namespace', None))
        try:
            present = tuple(f for f in c._fields if getattr(x, f, None) is not None)
        except Exception:
            present = ('?',)
        f, xmls = oracle(c, x, is_root, urns)
        stats['xml_round_trips'] += len(urns)
        if which == 2:
            # secondary stream: required fields may be missing (outside the quantifier of the property); counted, never a violation
            lenient['instances'] += 1
            if f:
                lenient['instances_failing'] += 1
                lenient['examples'].setdefault(q, f'{f[0]["kind"]} {f[0]["path"]}: {f[0]["what"]}'[:200])
            continue
        trig = []
        if f:
            find_triggers(x, c.__name__, trig)
            trig.sort(key=lambda t_: 0 if t_[1].startswith('moved-') else 1)     # state carried by a moved child explains what is under it
        for ff in f:
            ff.update(cls=q, mode=str(mode), seed=seed, edge_strings=which == 1, nonstandard=[q, mode[1]] if which == 3 else None)
            ff['key'] = classify(ff, trig, unit_tags, which == 1)
            ra_, rb_ = ff.get('_raw', (None, None))
            uv = False
            if ff['kind'] == 'xml-stability' and isinstance(ra_, bytes):
                uv = any(near(t1, t2) and any(c in unit_tags for c in tp) for tp, t1, t2 in (xml_text_diffs(ra_, rb_) or []))
            ff['_uv'] = uv
            ff.pop('_raw', None)
        for ff in f:
            # the re-serialisation differs because the re-parsed structure differs: when every field-level difference of this instance
            # (same variant) is an instance of a listed defect, the text difference is attributed to the same defects
            if ff['kind'] in ('xml-stability', 'dict-stability') and ff['key'] is None:
                fam = 'xml' if ff['kind'] == 'xml-stability' else 'dict'
                causes = [g for g in f if g['kind'] in (fam, fam + '-exception') and g.get('variant') == ff.get('variant')]
                if causes and all(g['key'] for g in causes):
                    keys = {k for g in causes for k in g['key'].split('+')}
                    # the unit-vector defect joins the attribution only when a unit-vector leaf of the text really differs in the last bits
                    if ff.get('_uv') and any(t[1] == 'unit-vector-renormalised-on-reassignment' for t in trig):
                        keys.add('unit-vector-renormalised-on-reassignment')
                    ff['key'] = '+'.join(sorted(keys))
        for ff in f:
            ff.pop('_uv', None)
            ff['msg'] = f'{q} [{ff["kind"]}] {ff["path"]}: {ff["what"]}'
        fails += f
        if not f:
            classes_ok.add(q)
            if present:
                patterns.add((q, present))
        if len(samples) < 3 and present and 'family-urn' in xmls:
            samples.append(f'{q}: {xmls["family-urn"][:200]!r}')
        # ---- model correspondence for table-driven classes
        if q in info['outside'] or which not in (0, 3, 4):
            continue
        if f:
            # the instance already fails the oracle (reported above): its XML is not what the generic machinery alone would write
            stats['model_skipped_instance_fails_oracle'] = stats.get('model_skipped_instance_fails_oracle', 0) + 1
            continue
        for uname, b in xmls.items():
            try:
                gcid = mc.cid(c, None)
                order, seen = mc.mini(gcid)
                texts = Texts()
                tabs = mc.encode_tabs(order, seen, texts)
                toks = []
                value_tokens(x, gcid, mc, seen, texts, toks, False)
                real = ElementTree.fromstring(b)
                nsmap = {}
                if isinstance(urn, dict) and uname != 'no-namespace':
                    for k, u in urn.items():
                        nsmap[u] = None if k == 'xmlns' else k.split(':', 1)[1]
                elif uname == 'default':
                    nsmap = root_nsmap(b)
                elif uname == 'family-urn':
                    nsmap[urn] = None
                rtoks = []
                et_to_tokens(real, nsmap, mc, texts, rtoks)
                tag = rtoks[0][1:].split(':')[:2]
                i1 = drv.ask(f'xml ser {tabs} 0 {tag[0]}:{tag[1]} {",".join(toks)}')
                i2 = drv.ask(f'xml par {tabs} 0 {",".join(rtoks)}')
                dt = []
                value_tokens(x, gcid, mc, seen, texts, dt, True)
                de = []
                dict_tokens(x, gcid, mc, texts, de)
                i3 = drv.ask(f'xml dict {tabs} 0 {",".join(dt)}') if uname == list(xmls)[0] else None
                jobs.append((q, mode, seed, uname, texts, ','.join(rtoks), ','.join(toks), ','.join(de), i1, i2, i3))
                if which == 0 and uname == list(xmls)[0] and uname != 'no-namespace' and all(info['tables'][info['order'][i_]] is not None for i_ in order):
                    # only classes whose whole closure is inside the model: inside a black box the model keeps the document as it is
                    foreign_cands.append((q, mode, seed, c, is_root, urn, uname, b, dict(nsmap)))
            except Infra:
                raise
            except Exception as e:
                disagreements.append({'case': [q, str(mode), seed], 'msg': f'converting the instance to the model value raised {type(e).__name__}: {e}'})
    # ---- documents sarpy did not write: the same reader on both sides (implementation: from_node; model: parseN)
    derived_tags = {r['tag'][1] for rows in info['tables'].values() if isinstance(rows, list) for r in rows if r['kind'] in ('count', 'const', 'which') and not r.get('as_attr')}
    n_foreign = 500 if tier == 'quick' else 8000
    frng = random.Random(rng.getrandbits(48))
    frng.shuffle(foreign_cands)
    fstats = {op: 0 for op in FOREIGN_OPS}
    fstats.update(refused_by_implementation=0, documents=0)
    per_op_cap = max(1, n_foreign // len(FOREIGN_OPS)) * 2
    for k, (q, mode, seed, c, is_root, urn, uname, b, nsmap) in enumerate(foreign_cands):
        if fstats['documents'] >= n_foreign:
            break
        ops = list(FOREIGN_OPS)
        frng.shuffle(ops)
        ops.sort(key=lambda o: fstats[o])          # least used operator first
        for op in ops:
            if fstats[op] >= per_op_cap:
                continue
            try:
                rws = info['tables'][(q, None)]
                top = {r['tag'][1] for r in rws if r['kind'] in ('array', 'floatarr')} if isinstance(rws, list) else set()
                root2 = foreign_variant(b, op, frng, derived_tags, top)
            except Exception as e:
                raise Infra(f'foreign_variant {op} on {q}: {type(e).__name__}: {e}')
            if root2 is None:
                continue
            nsdecl = {('' if pfx is None else pfx): uri for uri, pfx in nsmap.items()}
            b2 = foreign_bytes(root2, nsdecl)
            if b2 is None:
                continue
            try:
                y = from_xml(c, b2, is_root)
                refused = None
            except Exception as e:
                y, refused = None, type(e).__name__
            try:
                gcid = mc.cid(c, None)
                order, seen = mc.mini(gcid)
                texts = Texts()
                tabs = mc.encode_tabs(order, seen, texts)
                rtoks = []
                et_to_tokens(ElementTree.fromstring(b2), nsmap, mc, texts, rtoks)
                if refused is None:
                    vt = []
                    value_tokens(y, gcid, mc, seen, texts, vt, False)
                    expect = ','.join(vt)
                else:
                    expect = 'none'
                fjobs.append((q, str(mode), seed, op, refused, expect, texts, drv.ask(f'xml par {tabs} 0 {",".join(rtoks)}'), b2[:1500]))
                fstats[op] += 1
                fstats['documents'] += 1
                fstats['refused_by_implementation'] += refused is not None
            except Infra:
                raise
            except Exception as e:
                disagreements.append({'case': [q, str(mode), seed, 'foreign:' + op], 'msg': f'converting the re-parsed instance raised {type(e).__name__}: {e}'})
            break
    # ---- ask the model
    try:
        ans = drv.run()
    except Infra as e:
        ans = None
        broken.append('model driver does not build/run: ' + str(e)[:300])
    if ans is not None:
        for q, mode, seed, uname, texts, real, val, dexp, i1, i2, i3 in jobs:
            a = ans[i1].split(' ')
            case = [q, str(mode), seed, uname]
            if len(a) != 5:
                disagreements.append({'case': case, 'msg': 'model driver refused the request: ' + ans[i1][:100]})
                continue
            wf_t, wf_v, rt, stable, node = a
            stats['model_nodes_compared'] += 1
            if wf_t != 'true':
                disagreements.append({'case': case, 'msg': 'the class tables of this instance are not well formed (WF false)'})
            if wf_v != 'true':
                disagreements.append({'case': case, 'msg': 'the implementation holds a value the model calls ill-formed for its class', 'value': val[:300]})
            if rt != 'true' or stable != 'true':
                disagreements.append({'case': case, 'msg': f'model round trip {rt} / stability {stable} on a value of the implementation', 'value': val[:300]})
            if norm_empty(node, texts) != norm_empty(real, texts):
                disagreements.append({'case': case, 'msg': 'model serialisation differs from the XML the implementation wrote',
                                      'model': explain(node, real, texts, mc)[0], 'python': explain(node, real, texts, mc)[1]})
            stats['model_parses_compared'] += 1
            if ans[i2] != val:
                disagreements.append({'case': case, 'msg': 'model parse of the real XML differs from the value the implementation holds',
                                      'model': explain(ans[i2], val, texts, mc)[0], 'python': explain(ans[i2], val, texts, mc)[1]})
            if i3 is not None:
                d = ans[i3].split(' ')
                stats['model_dicts_compared'] += 1
                if len(d) != 4 or d[0] != 'true' or d[1] != 'true' or d[2] != 'true':
                    disagreements.append({'case': case, 'msg': 'model dict form: ' + ans[i3][:120]})
                elif d[3] != dexp:
                    disagreements.append({'case': case, 'msg': 'model dict form differs from to_dict()',
                                          'model': explain(d[3], dexp, texts, mc)[0], 'python': explain(d[3], dexp, texts, mc)[1]})
    if ans is not None:
        def n0(t):
            return ','.join('A' if x == 'N0' else x for x in t.split(','))
        for q, mode, seed, op, refused, expect, texts, i, doc in fjobs:
            stats['model_foreign_documents_compared'] = stats.get('model_foreign_documents_compared', 0) + 1
            if n0(ans[i]) != n0(expect):
                ex = explain(n0(ans[i]), n0(expect), texts, mc)
                disagreements.append({'case': [q, mode, seed, 'foreign:' + op],
                                      'msg': 'reading a document sarpy did not write (' + op + '): model '
                                             + ('refuses' if ans[i] == 'none' else 'accepts') + ', implementation '
                                             + (f'refuses ({refused})' if refused else 'accepts'),
                                      'model': ex[0], 'python': ex[1], 'document': doc.decode('utf-8', 'replace')})
    stats['foreign_documents'] = fstats
    stats['oracle_failures'] = len(fails)
    stats['empty_collection_equals_absent'] = COUNTERS['empty_collection_equals_absent']
    never = sorted(set(classes) - classes_seen)
    chk.coverage.update({
        'evaluations': stats['instances'] + stats['model_nodes_compared'] + stats['model_parses_compared'] + stats['model_dicts_compared']
        + stats.get('model_foreign_documents_compared', 0),
        'distinct_nontrivial': len(patterns),
        'rule': 'instances generated from the descriptors of every Serializable class of the element packages: all fields absent, all present, each field '
                'alone, fields left out, random subsets; collections of 0-4 entries (and the fixed sizes of the class); coefficient arrays of order 0..5 per '
                'variable, all-zero / dense / sparse patterns with -0.0, denormals and 1e308; parameter names never in sorted order; edited documents (Coef '
                'children permuted, zero coefficients dropped, index attributes shuffled, parameter names repeated / reversed, derived elements changed or '
                'dropped, size attributes off by one or two, arrays longer / shorter than their bounds); floats from a pool of extremes (-0.0, denormals, 1e308, max, 2^53+1, '
                'halfway cases, inf, nan) and random bit patterns; integers to 10^30; strings long (5000), non-ASCII, XML-special, multi-line; every enum value '
                'drawn from the descriptor; dates 0001..9999; a separate stream with empty and whitespace-edged strings. distinct = (class, set of present '
                'fields) pairs that passed the oracle with at least one field present',
        'samples': samples,
        'stats': stats,
        'mode_histogram': mode_hist,
        'classes_instantiated': len(classes_seen), 'classes_passing_every_instance': len(classes_ok - {f["cls"] for f in fails}),
        'classes_never_constructed': {q: cannot.get(q, '') for q in never},
        'cannot_construct_examples': dict(list(cannot.items())[:40]),
        'required_fields_missing_stream': {'instances': lenient['instances'], 'instances_failing': lenient['instances_failing'],
                                           'examples': dict(list(lenient['examples'].items())[:15]),
                                           'note': 'instances with required fields left out are outside the quantifier of the property; reported, not judged'},
        'known_defect_hits': {k: sum(1 for f in fails if f.get('key') and k in f['key'].split('+'))
                              for k in sorted({k for f in fails if f.get('key') for k in f['key'].split('+')})},
        'traces_validated_against_impl': stats['model_nodes_compared'],
        'disagreements_checked': len(disagreements),
    })
    chk.assumptions += [
        'reflection translator tables_xml.py (rows, qualified tags and namespace contexts read from the class attributes and descriptors on every run); its '
        'fidelity is what the node-by-node comparison of the model serialisation with the real XML checks',
        'primitive text codecs (float <-> "0.17G"/"0.17E"/str, int, bool, datetime64, enum strings) are an abstract parameter of the theorems with an explicit '
        'round-trip hypothesis; that hypothesis is tested bit for bit on the implementation, not proved',
        'hand-written methods enter the model through AST templates (translate/tables_xml.py: coefficient arrays, wrapped parameter collections, read-only and '
        'string-backed properties, legacy-dispatching from_node, copy with a private attribute): a method that deviates from its template takes the class out of '
        'the model, which is reported as a broken obligation against the committed list translate/xml_constructs_expected.json; the templates themselves and the '
        'transcription of base.py into Spec.XmlFmt are validated by the node-by-node differential (own documents and edited documents), not proved',
        'classes that stay outside (translator.outside, with the reason for each) are black boxes in the theorems and are covered by the oracle only',
        'children handed from one parent to another (moved stream): the model has no per-object state, so serialisation depends on the value and the table of the '
        'receiving class only (moved_roundtrip, serialize_moved_eq; variants_ok decides for the current tables that a python class has the same fields, kinds and '
        'bounds in every namespace context); the implementation is held to that by handing parsed children / collections / arrays between owners of different '
        'contexts and element names and round-tripping the receiver - two listed findings are exactly state that travels with the child',
        'legacy branches of from_node (SICD < 1.0 MatchInfo / Radiometric / WgtType text form, SIDD version dispatch) are outside the model: the claim is for documents '
        'that do not take them',
        'reader leniencies not modelled: int() accepts signs, blanks and leading zeros in size / index / exponent attributes, a negative exponent wraps around '
        '(numpy indexing); such documents are not generated',
        'a failure inside a nested structure is swallowed by SerializableDescriptor (the field becomes None) where the model refuses the whole document: documents '
        'that make a reader refuse are generated at the top level only',
        'an empty collection and an absent one have the same XML (nothing is written): the XML comparison identifies them; the dict and copy comparisons do not',
        'canonicalising descriptors (UnitVectorDescriptor, FloatModularDescriptor) are compared to rounding error (4e-15 relative / 1e-9 of the modulus); unit-vector '
        'inputs are drawn with moderate magnitudes (1e-3..1e6)',
        'xml.etree.ElementTree (escaping, namespace resolution, utf-8) is trusted; control characters other than tab/newline are not generated',
        'the constructor of a class may derive or default fields (translator.constructors_with_extra_statements): only the oracle sees that',
    ]
    # ---- the closed interval on the implementation: every bounded descriptor must accept the value exactly at each declared bound
    # (Props/C05Bounds accepts_closed; tables of Gen/Bounds.lean).  Assigned on an empty instance; a refusal (exception, or another value kept) is a failure.
    import gen_bounds as _gb
    n_bound = 0
    for r_ in _gb.descriptor_rows():
        for end, sv in (('lower', r_['lo']), ('upper', r_['hi'])):
            if sv is None:
                continue
            val = sv // _gb.SCALE if sv % _gb.SCALE == 0 else sv / _gb.SCALE
            val = float(val) if r_['kind'] == 'float' else int(val)
            n_bound += 1
            what = None
            try:
                inst = object.__new__(r_['pycls'])          # no constructor: only the descriptor's acceptance test is exercised
                setattr(inst, r_['field'], val)
                got = getattr(inst, r_['field'])
                if got != val:
                    what = f'kept {got!r}'
            except Exception as e:
                what = f'raised {type(e).__name__}: {str(e)[:200]}'
            if what:
                fails.append(dict(kind='xml', cls=r_['cls'], path=r_['cls'].split('.')[-1] + '.' + r_['field'], key=None, mode='bound', seed=0,
                                  what=f'the value exactly at the {end} bound {val!r} of bounds=({r_["lo"]}, {r_["hi"]})/1e6 is not accepted: {what}',
                                  msg=f'{r_["cls"]}.{r_["field"]}: assigning the value exactly at the declared {end} bound ({val!r}) {what} '
                                      f'(the acceptance domain is the closed interval)', bound_case=[r_['cls'], r_['field'], val]))
    chk.coverage['bound_values_assigned'] = n_bound
    chk.coverage['failing_inputs'] = len(fails)
    # group failures: one report per (key or class+kind+field)
    # a failure is covered only if every defect it is attributed to is a listed finding
    unknown = [f for f in fails if not (f.get('key') and all([chk.known(k) is not None for k in f['key'].split('+')]))]
    seen_groups, reported = set(), []
    for f in unknown:
        g = f.get('key') or (f['cls'], f['kind'], f['path'].split('[')[0])
        if g in seen_groups:
            continue
        seen_groups.add(g)
        reported.append(f)
    chk.coverage['failure_groups'] = len(seen_groups)
    chk.coverage['failure_group_list'] = [f'[{f.get("key") or "UNATTRIBUTED"}] ' + f['msg'][:240] for f in reported[:60]]
    chk.coverage['failures_not_attributed_to_a_described_defect'] = sum(1 for f in fails if not f.get('key'))
    for f in reported[:5]:
        chk.violation(f['msg'], {'case': f, 'replay_cmd': './check C05 --replay <this file>'}, True)
    if len(reported) > 5:
        chk.notes.append(f'{len(unknown)} failing inputs in {len(reported)} groups found, first 5 groups reported (all groups under coverage.failure_group_list)')
    if not unknown and (broken or disagreements):
        chk.violation('proof obligation or correspondence no longer checks: ' + '; '.join(broken[:3] + [json.dumps(d, default=str)[:300] for d in disagreements[:2]]),
                      {'broken_obligations': broken, 'disagreements': disagreements[:10]}, False)
    if disagreements:
        chk.coverage['disagreement_examples'] = [json.dumps(d, default=str)[:400] for d in disagreements[:5]]
    import shutil
    shutil.rmtree(_tmpdir[0], ignore_errors=True)
    _tmpdir[0] = None
    return chk.finish()


def root_nsmap(b):
    """declared namespaces of a document: uri -> prefix (None for the default namespace)"""
    from io import BytesIO
    out = {}
    for _, (pfx, uri) in ElementTree.iterparse(BytesIO(b), events=('start-ns',)):
        out[uri] = pfx or None
    return out


def explain(model, python, texts, mc):
    """first differing tokens of two encodings, with ids turned back into names"""
    a, b = model.split(','), python.split(',')
    i = next((k for k in range(min(len(a), len(b))) if a[k] != b[k]), min(len(a), len(b)))

    def show(t):
        try:
            if t[:1] == 'E':
                p = t[1:].split(':')
                tx = '-' if p[3] == '-' else repr(texts.name(int(p[3]))[:30])
                return f'<{mc.nss.names[int(p[0])] or ""}:{mc.tags.names[int(p[1])]} attrs={p[2]} text={tx} children={p[4]}>'
            if t[:1] == 'P':
                return 'P' + repr(texts.name(int(t[1:]))[:30])
            if t[:1] == 'K' and t[1:].isdigit():
                return 'K:' + mc.names.names[int(t[1:])]
            if t[:1].isdigit():
                p = t.split(':')
                return f'@{mc.nss.names[int(p[0])] or ""}:{mc.tags.names[int(p[1])]}={texts.name(int(p[2]))[:30]!r}'
        except Exception:
            pass
        return t
    return (f'token {i}: ' + ' '.join(show(t) for t in a[max(0, i - 2):i + 4]), f'token {i}: ' + ' '.join(show(t) for t in b[max(0, i - 2):i + 4]))


def replay(path):
    """re-run one failing case on the implementation alone"""
    sarpy_guard()
    logging.disable(logging.CRITICAL)
    rec = json.load(open(path))
    case = rec.get('case')
    if not case or 'cls' not in case:
        print(json.dumps(rec, default=str)[:3000])
        return 1
    import tables_xml
    info = tables_xml.build()
    q = case['cls']
    mode = case['mode']
    if mode.startswith('('):
        import ast
        mode = ast.literal_eval(mode)
    g = Generator(edge_strings=bool(case.get('edge_strings')), nonstandard=[tuple(case['nonstandard'])] if case.get('nonstandard') else ())
    c, x = run_case(g, info, q, mode, case['seed'])
    is_root = q in set(info['roots'])
    urn = family_urn(c)
    urns = [('default', 'default')] if is_root else [('family-urn', urn)]
    if not is_root and not isinstance(urn, dict):
        urns.append(('no-namespace', None))
    f, xmls = oracle(c, x, is_root, urns)
    print(f'replay {q} mode={mode} seed={case["seed"]}: {len(f)} failure(s)')
    for ff in f[:20]:
        print(f'  [{ff["kind"]}] {ff["path"]}: {ff["what"]}')
    for u, b in xmls.items():
        print(f'  xml ({u}): {b[:600]!r}')
    return 1 if f else 0
