"""xsd2lean.py - XSD content models and sarpy class tables, walked in lockstep, emitted for Lean (property C06).

Three parts, all re-run on every check from /repo's current files:

 A. an XSD reader (lxml is used as an XML parser only): global elements / complex types / simple types / groups /
    attribute groups of each bundled schema and of everything it imports, resolved into Python content models
    (`Elem`, `Group` seq/choice/all, `AnyP`; `ComplexType` with attributes, extension flattened; `SimpleType` with facets).
    `match_children` assigns the children of an instance element to particles (used by the harness to derive variants).
 B. a reflector of the element classes (`class_rows`): the ordered rows of `_fields` with tag override, kind
    (attribute / primitive / child / list / array / params / ...), required flag and namespace key, exactly the
    data `Serializable.to_node/from_node` (sarpy/io/xml/base.py) consult, plus the list of classes that override
    to_node/from_node (outside the table-driven fragment).
 C. the lockstep walk from each root element (SICD, SIDD, CPHD, CRSD) pairing every reachable class with the complex
    type of the element it is stored in; every pair is classified
        conforming            strict `Conforms` holds (decided again by Lean, `by decide`)
        conforming_weak       `ConformsWeak`: as above but the table has rows the type has no particle for
        outside_fragment      class overrides to_node/from_node, or the type uses a construct outside the fragment
        nonconforming         in the fragment and NOT conforming: the generic theorem does not apply; a defect of the
                              class table w.r.t. this schema version (emitted as a `= true` obligation that fails,
                              unless the key is an open known finding, then as a proved `= false` witness)
    and written to lean/SarpyModel/Gen/XsdPairs.lean.
"""
import ast
import hashlib
import importlib
import inspect
import json
import logging
import os
import pkgutil
import re
import sys
import textwrap

from lxml import etree

REPO = os.environ.get('SARPY_REPO', '/repo')
XS = 'http://www.w3.org/2001/XMLSchema'
HERE = os.path.dirname(os.path.abspath(__file__))



_ATTR_NS_INHERITED = None


def attr_ns_inherited():
    """does Serializable.to_node write an attribute (without its own _child_xml_ns_key entry) with the namespace prefix of its
    element? Measured on the current implementation with a probe class rather than transcribed."""
    global _ATTR_NS_INHERITED
    if _ATTR_NS_INHERITED is None:
        import xml.etree.ElementTree as ET
        from sarpy.io.xml.base import Serializable
        from sarpy.io.xml.descriptors import IntegerDescriptor

        class _Probe(Serializable):
            _fields = ('index', )
            _required = ('index', )
            _set_as_attribute = ('index', )
            index = IntegerDescriptor('index', _required, strict=False)

            def __init__(self, index=None, **kwargs):
                self.index = index
                super(_Probe, self).__init__(**kwargs)
        root = ET.Element('root')
        doc = ET.ElementTree(root)
        node = _Probe(index=1).to_node(doc, 'P', ns_key='q', parent=root)
        _ATTR_NS_INHERITED = any(k.startswith('q:') for k in node.attrib)
    return _ATTR_NS_INHERITED


def q(ns, name):
    return '{%s}%s' % (ns, name) if ns else name


def local(qn):
    return qn.rsplit('}', 1)[-1]


def nsof(qn):
    return qn[1:].split('}', 1)[0] if qn.startswith('{') else None


# ------------------------------------------------------------------------------------------------ part A: XSD model

class SimpleType:
    def __init__(self, name):
        self.name = name
        self.variety = 'atomic'      # atomic | list | union
        self.builtin = None          # local name of the built-in ancestor (atomic)
        self.enum = None
        self.patterns = []
        self.min_inc = self.max_inc = self.min_exc = self.max_exc = None
        self.length = self.min_length = self.max_length = None
        self.item = None
        self.members = []

    def clone(self, name):
        s = SimpleType(name)
        s.__dict__.update({k: (list(v) if isinstance(v, list) else v) for k, v in self.__dict__.items()})
        s.name = name
        return s

    def __repr__(self):
        return f'<simple {self.name} {self.variety} {self.builtin}>'


class Attr:
    def __init__(self, qname, stype, use, fixed):
        self.qname, self.stype, self.use, self.fixed = qname, stype, use, fixed

    def __repr__(self):
        return f'@{local(self.qname)}[{self.use}]'


class Elem:
    kind = 'elem'

    def __init__(self, schema, qname, min_, max_, fixed, node, type_qname=None, inline=None, where=''):
        self.schema, self.qname, self.min, self.max, self.fixed = schema, qname, min_, max_, fixed
        self.node, self.type_qname, self.inline, self.where = node, type_qname, inline, where
        self._type = None

    @property
    def type(self):
        if self._type is None:
            self._type = self.schema.resolve_elem_type(self)
        return self._type

    def __repr__(self):
        return f'<{local(self.qname)} {self.min}..{self.max}>'


class Group:
    def __init__(self, kind, items, min_, max_):
        self.kind, self.items, self.min, self.max = kind, items, min_, max_

    def __repr__(self):
        return f'{self.kind}{self.items}{{{self.min}..{self.max}}}'


class AnyP:
    kind = 'any'

    def __init__(self, min_, max_):
        self.min, self.max = min_, max_


class ComplexType:
    def __init__(self, name):
        self.name = name             # Clark name or synthetic 'anon:<path>'
        self.attrs = []
        self.content = None          # particle or None (empty / simple content)
        self.simple = None           # SimpleType for simple content
        self.abstract = False
        self.mixed = False
        self.any_attr = False
        self.base = None             # Clark name of the extension base (complex)

    def __repr__(self):
        return f'<complex {self.name}>'


BUILTIN_PARENT = {
    'token': 'string', 'normalizedString': 'string', 'NMTOKEN': 'token', 'NMTOKENS': 'NMTOKENS', 'Name': 'token',
    'NCName': 'token', 'ID': 'NCName', 'IDREF': 'NCName', 'IDREFS': 'IDREFS', 'language': 'token',
    'integer': 'decimal', 'int': 'integer', 'long': 'integer', 'short': 'integer', 'byte': 'integer',
    'nonNegativeInteger': 'integer', 'positiveInteger': 'nonNegativeInteger', 'unsignedInt': 'nonNegativeInteger',
    'unsignedLong': 'nonNegativeInteger', 'unsignedShort': 'nonNegativeInteger', 'unsignedByte': 'nonNegativeInteger',
    'nonPositiveInteger': 'integer', 'negativeInteger': 'nonPositiveInteger',
}


def occurs(node):
    mn = int(node.get('minOccurs', '1'))
    mx = node.get('maxOccurs', '1')
    return mn, (None if mx == 'unbounded' else int(mx))


class Schema:
    """all components reachable from one root schema file"""

    def __init__(self, path):
        self.path = path
        self.docs = {}          # abs path -> (root node, target namespace, elementFormDefault, attributeFormDefault)
        self.g = {k: {} for k in ('element', 'complexType', 'simpleType', 'group', 'attributeGroup', 'attribute')}
        self.node_doc = {}
        self.unsupported = []   # (where, construct)
        self._ct = {}
        self._st = {}
        self._elems = {}
        self._load(os.path.abspath(path))
        self.target_ns = self.docs[os.path.abspath(path)][1]

    # -- loading
    def _load(self, path, inherit_ns=None):
        if path in self.docs:
            return
        if not os.path.exists(path):
            self.unsupported.append((path, 'missing-import'))
            return
        root = etree.parse(path).getroot()
        tns = root.get('targetNamespace')
        if tns is None:
            tns = inherit_ns        # chameleon include: adopts the namespace of the including schema
        self.docs[path] = (root, tns, root.get('elementFormDefault', 'unqualified'), root.get('attributeFormDefault', 'unqualified'))
        for ch in root:
            if not isinstance(ch.tag, str):
                continue
            tag = local(ch.tag)
            if tag in ('import', 'include'):
                loc = ch.get('schemaLocation')
                if loc:
                    self._load(os.path.normpath(os.path.join(os.path.dirname(path), loc)), tns if tag == 'include' else None)
            elif tag in self.g:
                self.g[tag].setdefault(q(tns, ch.get('name')), (ch, path))
            elif tag == 'redefine':
                self.unsupported.append((path, 'redefine'))

    def doc_of(self, node):
        r = node.getroottree().getroot()
        for p, (root, tns, efd, afd) in self.docs.items():
            if root is r:
                return p, tns, efd, afd
        raise KeyError('node from unknown document')

    def resolve_qname(self, node, text):
        if ':' in text:
            pfx, name = text.split(':', 1)
            ns = node.nsmap.get(pfx)
        else:
            name, ns = text, node.nsmap.get(None)
            if ns is None:
                ns = self.doc_of(node)[1]      # chameleon include / no default namespace: the document's target namespace
        return q(ns, name)

    # -- simple types
    def builtin_simple(self, name):
        key = '{%s}%s' % (XS, name)
        if key not in self._st:
            s = SimpleType(key)
            b = name
            if name in ('NMTOKENS', 'IDREFS'):
                s.variety = 'list'
                s.item = self.builtin_simple('NMTOKEN' if name == 'NMTOKENS' else 'IDREF')
                b = name
            s.builtin = b
            self._st[key] = s
        return self._st[key]

    def simple_type(self, qname):
        if qname in self._st:
            return self._st[qname]
        if nsof(qname) == XS:
            return self.builtin_simple(local(qname))
        if qname not in self.g['simpleType']:
            return None
        node, _ = self.g['simpleType'][qname]
        s = self._simple_from_node(node, qname)
        self._st[qname] = s
        return s

    def _simple_from_node(self, node, name):
        for ch in node:
            if not isinstance(ch.tag, str):
                continue
            tag = local(ch.tag)
            if tag == 'restriction':
                base = ch.get('base')
                if base is not None:
                    b = self.simple_type(self.resolve_qname(ch, base))
                else:
                    inner = [c for c in ch if isinstance(c.tag, str) and local(c.tag) == 'simpleType']
                    b = self._simple_from_node(inner[0], name + '/base') if inner else None
                if b is None:
                    self.unsupported.append((name, 'simpleType base not found: %s' % base))
                    b = self.builtin_simple('string')
                s = b.clone(name)
                self._facets(ch, s)
                return s
            if tag == 'list':
                s = SimpleType(name)
                s.variety = 'list'
                it = ch.get('itemType')
                if it:
                    s.item = self.simple_type(self.resolve_qname(ch, it))
                else:
                    inner = [c for c in ch if isinstance(c.tag, str) and local(c.tag) == 'simpleType']
                    s.item = self._simple_from_node(inner[0], name + '/item')
                return s
            if tag == 'union':
                s = SimpleType(name)
                s.variety = 'union'
                for m in (ch.get('memberTypes') or '').split():
                    s.members.append(self.simple_type(self.resolve_qname(ch, m)))
                for c in ch:
                    if isinstance(c.tag, str) and local(c.tag) == 'simpleType':
                        s.members.append(self._simple_from_node(c, name + '/member'))
                return s
        self.unsupported.append((name, 'simpleType without restriction/list/union'))
        return self.builtin_simple('string').clone(name)

    def _facets(self, rnode, s):
        enum = []
        pats = []
        for f in rnode:
            if not isinstance(f.tag, str):
                continue
            t, v = local(f.tag), f.get('value')
            if t == 'enumeration':
                enum.append(v)
            elif t == 'pattern':
                pats.append(v)
            elif t == 'minInclusive':
                s.min_inc = v
            elif t == 'maxInclusive':
                s.max_inc = v
            elif t == 'minExclusive':
                s.min_exc = v
            elif t == 'maxExclusive':
                s.max_exc = v
            elif t == 'length':
                s.length = int(v)
            elif t == 'minLength':
                s.min_length = int(v)
            elif t == 'maxLength':
                s.max_length = int(v)
        if enum:
            s.enum = enum
        if pats:
            s.patterns = s.patterns + ['|'.join('(?:%s)' % p for p in pats)]

    # -- complex types
    def complex_type(self, qname):
        if qname in self._ct:
            return self._ct[qname]
        if qname not in self.g['complexType']:
            return None
        node, _ = self.g['complexType'][qname]
        ct = ComplexType(qname)
        self._ct[qname] = ct       # registered before filling: recursive types
        self._fill_complex(node, ct)
        return ct

    def _fill_complex(self, node, ct):
        ct.abstract = node.get('abstract') == 'true'
        ct.mixed = node.get('mixed') == 'true'
        if ct.mixed:
            self.unsupported.append((ct.name, 'mixed content'))
        self._complex_body(node, ct)

    def _complex_body(self, node, ct):
        """children: (simpleContent | complexContent | particle?) then attributes"""
        for ch in node:
            if not isinstance(ch.tag, str):
                continue
            tag = local(ch.tag)
            if tag in ('sequence', 'choice', 'all', 'group'):
                p = self._particle(ch, ct.name)
                ct.content = p if ct.content is None else Group('seq', [ct.content, p], 1, 1)
            elif tag == 'attribute':
                a = self._attribute(ch, ct.name)
                if a is not None:
                    ct.attrs = [x for x in ct.attrs if x.qname != a.qname] + [a]
            elif tag == 'attributeGroup':
                for a in self._attr_group(self.resolve_qname(ch, ch.get('ref'))):
                    ct.attrs = [x for x in ct.attrs if x.qname != a.qname] + [a]
            elif tag == 'anyAttribute':
                ct.any_attr = True
                self.unsupported.append((ct.name, 'anyAttribute'))
            elif tag == 'simpleContent':
                for d in ch:
                    if isinstance(d.tag, str) and local(d.tag) in ('extension', 'restriction'):
                        bq = self.resolve_qname(d, d.get('base'))
                        st = self.simple_type(bq)
                        if st is not None:
                            ct.simple = st
                        else:
                            b = self.complex_type(bq)
                            if b is None:
                                self.unsupported.append((ct.name, 'simpleContent base not found ' + bq))
                                ct.simple = self.builtin_simple('string')
                            else:
                                ct.simple = b.simple
                                ct.attrs = list(b.attrs)
                        if local(d.tag) == 'restriction' and ct.simple is not None:
                            s = ct.simple.clone(ct.name + '/simple')
                            self._facets(d, s)
                            ct.simple = s
                        self._complex_body(d, ct)
            elif tag == 'complexContent':
                if ch.get('mixed') == 'true':
                    ct.mixed = True
                    self.unsupported.append((ct.name, 'mixed content'))
                for d in ch:
                    if not isinstance(d.tag, str):
                        continue
                    if local(d.tag) == 'extension':
                        bq = self.resolve_qname(d, d.get('base'))
                        b = self.complex_type(bq)
                        ct.base = bq
                        if b is None:
                            self.unsupported.append((ct.name, 'extension base not found ' + bq))
                        else:
                            ct.attrs = list(b.attrs)
                            ct.content = b.content
                            ct.simple = b.simple
                            ct.any_attr = b.any_attr
                        self._complex_body(d, ct)
                    elif local(d.tag) == 'restriction':
                        bq = self.resolve_qname(d, d.get('base'))
                        b = self.complex_type(bq) if nsof(bq) != XS else None
                        if b is not None:
                            ct.attrs = list(b.attrs)
                        ct.base = bq
                        self._complex_body(d, ct)

    def _attr_group(self, qname):
        if qname not in self.g['attributeGroup']:
            self.unsupported.append((qname, 'attributeGroup not found'))
            return []
        node, _ = self.g['attributeGroup'][qname]
        out = []
        for ch in node:
            if not isinstance(ch.tag, str):
                continue
            if local(ch.tag) == 'attribute':
                a = self._attribute(ch, qname)
                if a is not None:
                    out.append(a)
            elif local(ch.tag) == 'attributeGroup':
                out += self._attr_group(self.resolve_qname(ch, ch.get('ref')))
        return out

    def _attribute(self, node, where):
        use = node.get('use', 'optional')
        ref = node.get('ref')
        if ref is not None:
            qn = self.resolve_qname(node, ref)
            if qn not in self.g['attribute']:
                self.unsupported.append((where, 'attribute ref not found ' + qn))
                return Attr(qn, self.builtin_simple('string'), use, node.get('fixed'))
            gnode, _ = self.g['attribute'][qn]
            a = self._attribute_decl(gnode, qn, where)
            a.use = use
            if node.get('fixed') is not None:
                a.fixed = node.get('fixed')
            return a
        _, tns, _, afd = self.doc_of(node)
        form = node.get('form', afd)
        qn = q(tns, node.get('name')) if form == 'qualified' else node.get('name')
        a = self._attribute_decl(node, qn, where)
        a.use = use
        return a

    def _attribute_decl(self, node, qn, where):
        t = node.get('type')
        if t is not None:
            st = self.simple_type(self.resolve_qname(node, t))
            if st is None:
                self.unsupported.append((where, 'attribute type not found ' + t))
                st = self.builtin_simple('string')
        else:
            inner = [c for c in node if isinstance(c.tag, str) and local(c.tag) == 'simpleType']
            st = self._simple_from_node(inner[0], where + '/@' + local(qn)) if inner else self.builtin_simple('string')
        return Attr(qn, st, node.get('use', 'optional'), node.get('fixed'))

    # -- particles
    def _particle(self, node, where):
        tag = local(node.tag)
        mn, mx = occurs(node)
        if tag in ('sequence', 'choice', 'all'):
            items = []
            for ch in node:
                if not isinstance(ch.tag, str):
                    continue
                t = local(ch.tag)
                if t in ('sequence', 'choice', 'all', 'group'):
                    items.append(self._particle(ch, where))
                elif t == 'element':
                    items.append(self._element(ch, where))
                elif t == 'any':
                    self.unsupported.append((where, 'xs:any'))
                    items.append(AnyP(*occurs(ch)))
            if tag == 'all':
                self.unsupported.append((where, 'xs:all'))
            return Group({'sequence': 'seq', 'choice': 'choice', 'all': 'all'}[tag], items, mn, mx)
        if tag == 'group':
            qn = self.resolve_qname(node, node.get('ref'))
            if qn not in self.g['group']:
                self.unsupported.append((where, 'group not found ' + qn))
                return Group('seq', [], mn, mx)
            gnode, _ = self.g['group'][qn]
            inner = [c for c in gnode if isinstance(c.tag, str) and local(c.tag) in ('sequence', 'choice', 'all')]
            p = self._particle(inner[0], qn)
            return p if (mn, mx) == (1, 1) else Group('seq', [p], mn, mx)
        raise ValueError(tag)

    def _element(self, node, where):
        mn, mx = occurs(node)
        ref = node.get('ref')
        if ref is not None:
            qn = self.resolve_qname(node, ref)
            g = self.global_element(qn)
            if g is None:
                self.unsupported.append((where, 'element ref not found ' + qn))
                return Elem(self, qn, mn, mx, None, node, type_qname='{%s}anyType' % XS, where=where)
            return Elem(self, qn, mn, mx, g.fixed, g.node, g.type_qname, g.inline, where)
        _, tns, efd, _ = self.doc_of(node)
        form = node.get('form', efd)
        qn = q(tns, node.get('name')) if form == 'qualified' else node.get('name')
        if node.get('substitutionGroup') or node.get('abstract') == 'true':
            self.unsupported.append((where, 'substitutionGroup/abstract element'))
        return self._elem_decl(node, qn, mn, mx, where)

    def _elem_decl(self, node, qn, mn, mx, where):
        t = node.get('type')
        inline = None
        tq = None
        if t is not None:
            tq = self.resolve_qname(node, t)
        else:
            for c in node:
                if isinstance(c.tag, str) and local(c.tag) in ('complexType', 'simpleType'):
                    inline = c
            if inline is None:
                tq = '{%s}anyType' % XS
        return Elem(self, qn, mn, mx, node.get('fixed'), node, tq, inline, where)

    def global_element(self, qn):
        if qn in self._elems:
            return self._elems[qn]
        if qn not in self.g['element']:
            return None
        node, _ = self.g['element'][qn]
        e = self._elem_decl(node, qn, 1, 1, 'global')
        self._elems[qn] = e
        return e

    def resolve_elem_type(self, e):
        if e.inline is not None:
            key = 'anon:%s/%s@%d' % (local(e.where), local(e.qname), e.inline.sourceline or 0)
            if local(e.inline.tag) == 'simpleType':
                if key not in self._st:
                    self._st[key] = self._simple_from_node(e.inline, key)
                return self._st[key]
            if key not in self._ct:
                ct = ComplexType(key)
                self._ct[key] = ct
                self._fill_complex(e.inline, ct)
            return self._ct[key]
        tq = e.type_qname
        st = self.simple_type(tq) if (nsof(tq) == XS and local(tq) not in ('anyType',)) else None
        if st is not None:
            return st
        ct = self.complex_type(tq)
        if ct is not None:
            return ct
        st = self.simple_type(tq)
        if st is not None:
            return st
        if local(tq) == 'anyType':
            ct = ComplexType(tq)
            ct.content = AnyP(0, None)
            ct.any_attr = True
            ct.mixed = True
            return ct
        self.unsupported.append((e.where, 'type not found ' + str(tq)))
        return self.builtin_simple('string')


# -- matching instance children against a content model (used by the harness)

def match_particle(p, kids, i, k):
    """generator of (next index, assignment list) matching children kids[i:] (list of Clark tags) against particle p once or
    more according to its occurrence bounds.  assignment: list of (child index, Elem).  k = continuation-free; backtracking
    through Python generators.  Content models here are deterministic, so the first solution is the only one."""
    def once(p, i):
        if isinstance(p, Elem):
            if i < len(kids) and kids[i] == p.qname:
                yield i + 1, [(i, p)]
            return
        if isinstance(p, AnyP):
            if i < len(kids):
                yield i + 1, [(i, p)]
            return
        if p.kind == 'seq':
            def seq(j, idx):
                if j == len(p.items):
                    yield idx, []
                    return
                for nxt, asg in match_particle(p.items[j], kids, idx, None):
                    for end, rest in seq(j + 1, nxt):
                        yield end, asg + rest
            yield from seq(0, i)
        elif p.kind == 'choice':
            for it in p.items:
                yield from match_particle(it, kids, i, None)
            if not p.items:
                yield i, []
        elif p.kind == 'all':
            # order-free: greedy
            remaining = list(p.items)
            idx, asg = i, []
            progress = True
            while progress and idx < len(kids):
                progress = False
                for it in list(remaining):
                    got = next(match_particle(it, kids, idx, None), None)
                    if got is not None and got[0] > idx:
                        idx, a = got
                        asg += a
                        remaining.remove(it)
                        progress = True
                        break
            if all(getattr(it, 'min', 1) == 0 for it in remaining):
                yield idx, asg

    def rep(count, i):
        # prefer the longest match (greedy), then shorter ones
        if p.max is None or count < p.max:
            had_empty = False
            for nxt, asg in once(p, i):
                if nxt == i:
                    had_empty = True
                    continue
                for end, rest in rep(count + 1, nxt):
                    yield end, asg + rest
            if had_empty and count < p.min:
                yield i, []           # the remaining required iterations match emptily
        if count >= p.min:
            yield i, []
    yield from rep(0, i)


def match_children(ct, elem):
    """assignment of every element child of `elem` to the Elem particle of complex type `ct` that it instantiates;
    None if the children do not match the content model"""
    kids = [c for c in elem if isinstance(c.tag, str)]
    tags = [c.tag for c in kids]
    if ct.content is None:
        return [] if not kids else None
    for end, asg in match_particle(ct.content, tags, 0, None):
        if end == len(tags):
            return [(kids[i], p) for i, p in asg]
    return None


# ------------------------------------------------------------------------------------- the fragment (flat content model)

class Outside(Exception):
    pass


def flatten_model(ct):
    """the complex type in the shape the Lean model understands:
         groups: list of ('elem', tag, min, max|None, Elem) | ('choice', optional, [[(tag,min,max,Elem)...] ...])
       sequences with bounds (1,1) are inlined; a sequence nested in a choice branch must have bounds (1,1);
       a choice must occur at most once (max 1) and hold only elements / (1,1)-sequences of elements.
       Raises Outside(reason) for anything else."""
    def seq_items(p, top):
        out = []
        if isinstance(p, Elem):
            return [('elem', p.qname, p.min, p.max, p)]
        if isinstance(p, AnyP):
            raise Outside('xs:any')
        if p.kind == 'all':
            raise Outside('xs:all')
        if p.kind == 'seq':
            if (p.min, p.max) != (1, 1):
                if not p.items:
                    return []
                raise Outside('sequence with occurrence bounds %s..%s' % (p.min, p.max if p.max is not None else 'unbounded'))
            for it in p.items:
                out += seq_items(it, top)
            return out
        if p.kind == 'choice':
            if p.max != 1:
                raise Outside('repeating choice (maxOccurs %s)' % ('unbounded' if p.max is None else p.max))
            if not top:
                raise Outside('choice nested in a choice')
            alts = []
            for it in p.items:
                if isinstance(it, Elem):
                    alts.append([(it.qname, it.min, it.max, it)])
                elif isinstance(it, Group) and it.kind == 'seq' and (it.min, it.max) == (1, 1):
                    row = []
                    for e in seq_items_nochoice(it):
                        row.append(e)
                    alts.append(row)
                else:
                    raise Outside('choice branch that is not an element or a plain sequence of elements')
            return [('choice', p.min == 0, alts)]
        raise Outside(p.kind)

    def seq_items_nochoice(p):
        out = []
        for it in p.items:
            if isinstance(it, Elem):
                out.append((it.qname, it.min, it.max, it))
            elif isinstance(it, Group) and it.kind == 'seq' and (it.min, it.max) == (1, 1):
                out += seq_items_nochoice(it)
            else:
                raise Outside('choice branch holding a nested %s' % getattr(it, 'kind', '?'))
        return out

    if ct.mixed:
        raise Outside('mixed content')
    if ct.any_attr:
        raise Outside('anyAttribute')
    groups = seq_items(ct.content, True) if ct.content is not None else []
    return groups


def order_alternatives(groups, row_tags):
    """the alternatives of a choice carry no order (only one of them occurs): list them in the order in which the class table
    names their first element, so that `same child order` compares what can be compared"""
    pos = {t: i for i, t in enumerate(row_tags)}
    out = []
    for g in groups:
        if g[0] == 'choice':
            alts = sorted(g[2], key=lambda alt: min([pos.get(e[0], 10 ** 6) for e in alt] or [10 ** 6]))
            out.append(('choice', g[1], alts))
        else:
            out.append(g)
    return out


def model_tags(groups):
    out = []
    for g in groups:
        if g[0] == 'elem':
            out.append(g[1])
        else:
            for alt in g[2]:
                out += [e[0] for e in alt]
    return out


# ------------------------------------------------------------------------------------------ part B: class reflection

PACKAGES = {
    'sicd': 'sarpy.io.complex.sicd_elements',
    'sidd1': 'sarpy.io.product.sidd1_elements',
    'sidd2': 'sarpy.io.product.sidd2_elements',
    'sidd3': 'sarpy.io.product.sidd3_elements',
    'cphd': 'sarpy.io.phase_history.cphd1_elements',
    'crsd': 'sarpy.io.received.crsd1_elements',
}


def load_sarpy():
    if REPO not in sys.path:
        sys.path.insert(0, REPO)
    if not logging.getLogger('sarpy').handlers:
        logging.getLogger('sarpy').addHandler(logging.NullHandler())     # keep sarpy's own messages off stderr
    import sarpy  # noqa
    return sarpy


def overrides(cls):
    """names among to_node/from_node that a class (or an ancestor below Serializable) defines itself"""
    from sarpy.io.xml.base import Serializable
    out = []
    for m in ('to_node', 'from_node'):
        for b in cls.__mro__:
            if b is Serializable:
                break
            if m in b.__dict__:
                out.append(m)
                break
    return out


def array_overrides(ext):
    """to_node/from_node defined by an array class below sarpy.io.xml.base.SerializableArray"""
    from sarpy.io.xml.base import SerializableArray
    out = []
    for m in ('to_node', 'from_node'):
        for b in ext.__mro__:
            if b is SerializableArray:
                break
            if m in b.__dict__:
                out.append(m)
                break
    return out


class Row:
    """one entry of _fields as Serializable.to_node / from_node treat it"""
    __slots__ = ('field', 'tag', 'kind', 'required', 'cls', 'child_tag', 'nskey', 'attr_nskey', 'size_attr', 'descr', 'ext',
                 'when', 'hidden', 'write_self')

    def __init__(self, **kw):
        for k in self.__slots__:
            setattr(self, k, kw.get(k))

    def as_json(self):
        return {k: (getattr(self, k).__name__ if k in ('cls', 'ext') and getattr(self, k) is not None else getattr(self, k))
                for k in self.__slots__}


def class_rows(cls):
    """rows in `_fields` order.  kind:
         attr      in _set_as_attribute                       -> XML attribute `tag`
         prim      scalar descriptor                          -> at most one child element `tag` with text
         complex   ComplexDescriptor                          -> child `tag` with Real/Imag
         child     SerializableDescriptor/UnitVector          -> at most one child element `tag` of class cls
         list      SerializableListDescriptor                 -> any number of children `child_tag` of class cls
         primlist  String/Integer/FloatListDescriptor         -> any number of children `child_tag` with text
         array     SerializableArrayDescriptor                -> one child `tag` (attribute size) holding `child_tag` children of class cls
         farray    FloatArrayDescriptor                       -> one child `tag` (attribute size) holding `child_tag` text children with index
         params    ParametersDescriptor                       -> any number of `child_tag` children with attribute name
         propstored  Python property WITH a setter             -> at most one child element `tag` (read by the generic from_node,
                                                                 handed to the setter, written back by the generic to_node)
         derived   READ-ONLY Python property                  -> nothing is read; to_node writes getattr(self, field) when it is not
                                                                 None.  `when` = the fields on whose presence the value depends
                                                                 ([] = never None), read off the getter's AST
         other     anything else                              -> outside the fragment"""
    from sarpy.io.xml import descriptors as D
    rows = []
    for f in cls._fields:
        d = inspect.getattr_static(cls, f, None)
        tag = cls._tag_override.get(f, f)
        req = f in cls._required
        ct = cls._collections_tags.get(f, None)
        nskey = cls._child_xml_ns_key.get(f, None)
        common = dict(field=f, tag=tag, required=req, nskey=nskey, descr=type(d).__name__)
        if f in cls._set_as_attribute:
            rows.append(Row(kind='attr', attr_nskey=cls._child_xml_ns_key.get(f, None), **common))
        elif isinstance(d, D.SerializableArrayDescriptor):
            rows.append(Row(kind='array', cls=d.child_type, child_tag=d.child_tag,
                            size_attr=getattr(d.array_extension, '_size_var_name', 'size') if getattr(d.array_extension, '_set_size', True) else None,
                            **common))
            rows[-1].descr = d.array_extension.__name__
            rows[-1].ext = d.array_extension
        elif isinstance(d, D.BasicDescriptor) and getattr(d, 'array', False) and hasattr(d, 'child_type') and hasattr(d, 'child_tag'):
            # array descriptors defined outside sarpy.io.xml.descriptors (SerializableCPArrayDescriptor: four corner points, no size attribute)
            rows.append(Row(kind='array', cls=d.child_type, child_tag=d.child_tag, size_attr=None, **common))
        elif isinstance(d, D.SerializableListDescriptor):
            rows.append(Row(kind='list', cls=d.child_type, child_tag=d.child_tag, **common))
        elif isinstance(d, D.ParametersDescriptor):
            rows.append(Row(kind='params', child_tag=d.child_tag, **common))
        elif isinstance(d, D.FloatArrayDescriptor):
            rows.append(Row(kind='farray', child_tag=(ct or {}).get('child_tag'), size_attr=(ct or {}).get('size_attribute', 'size'), **common))
        elif isinstance(d, (D.StringListDescriptor, D.IntegerListDescriptor, D.FloatListDescriptor)):
            rows.append(Row(kind='primlist', child_tag=(ct or {}).get('child_tag'), **common))
        elif isinstance(d, (D.SerializableDescriptor, D.UnitVectorDescriptor)):
            rows.append(Row(kind='child', cls=d.the_type, **common))
        elif isinstance(d, D.ComplexDescriptor):
            rows.append(Row(kind='complex', **common))
        elif isinstance(d, D.BasicDescriptor):
            rows.append(Row(kind='prim', **common))
        elif isinstance(d, property) and d.fset is not None and f not in cls._set_as_attribute:
            how, pcls = propstored_child(cls, d)
            common['descr'] = 'property'
            if how == 'class':
                rows.append(Row(kind='child', cls=pcls, **common))        # the setter hands the node to parse_serializable(.., pcls)
            elif how == 'leaf':
                rows.append(Row(kind='prim', **common))                   # the setter takes the node's text
            else:
                rows.append(Row(kind='propstored', **common))             # stored, but by code the translator does not follow: subtree opaque
        elif isinstance(d, property) and d.fset is None and f not in cls._set_as_attribute:
            when = derived_when(cls, f, d)
            if when is None:
                rows.append(Row(kind='other', **common))
            else:
                rows.append(Row(kind='derived', when=when, **common))
        else:
            rows.append(Row(kind='other', **common))
    return rows


def _fn_ast(fn):
    """ast.FunctionDef of a Python function (None when the source is not available)"""
    try:
        src = textwrap.dedent(inspect.getsource(fn))
        mod = ast.parse(src)
    except (OSError, TypeError, SyntaxError, IndentationError):
        return None
    for n in mod.body:
        if isinstance(n, (ast.FunctionDef, ast.AsyncFunctionDef)):
            return n
    return None


def propstored_child(cls, prop):
    """what the setter of a stored property does with the ElementTree node the generic from_node hands it:
       ('class', C)  it calls parse_serializable(value, name, self, C)            -> the child is read by class C
       ('leaf', None) it takes get_node_value(value) / parse_float|int|str|bool|datetime(value, ...)  -> a text element
       ('opaque', None) anything else"""
    from sarpy.io.xml.base import Serializable
    fn = _fn_ast(prop.fset)
    if fn is None:
        return 'opaque', None
    found_cls, leaf = set(), False
    for b in cls.__mro__:
        if b.__dict__.get(prop.fget.__name__) is prop:
            mod = sys.modules.get(b.__module__)
            break
    else:
        mod = sys.modules.get(cls.__module__)
    for n in ast.walk(fn):
        if isinstance(n, ast.Call) and isinstance(n.func, ast.Name):
            if n.func.id == 'parse_serializable' and len(n.args) >= 4 and isinstance(n.args[3], ast.Name):
                x = getattr(mod, n.args[3].id, None)
                if inspect.isclass(x) and issubclass(x, Serializable):
                    found_cls.add(x)
            elif n.func.id in ('get_node_value', 'parse_float', 'parse_int', 'parse_str', 'parse_bool', 'parse_datetime', 'parse_complex'):
                leaf = True
    if len(found_cls) == 1 and not leaf:
        return 'class', found_cls.pop()
    if leaf and not found_cls:
        return 'leaf', None
    return 'opaque', None


def derived_when(cls, field, prop):
    """for a read-only property: the `_fields` entries on whose presence its value depends, [] when the getter never returns
    None, None when the getter is not understood (the row is then outside the fragment).  Read off the getter's AST:
    a getter without `return None` (and without a bare `return`) always yields a value; otherwise the fields it mentions as
    self.F / self._F / through self._choice decide."""
    fn = _fn_ast(prop.fget)
    if fn is None:
        return None
    returns_none = False
    names = set()
    uses_choice = False
    for n in ast.walk(fn):
        if isinstance(n, ast.Return) and (n.value is None or (isinstance(n.value, ast.Constant) and n.value.value is None)):
            returns_none = True
        if isinstance(n, ast.Attribute) and isinstance(n.value, ast.Name) and n.value.id == 'self':
            if n.attr == '_choice':
                uses_choice = True
            names.add(n.attr.lstrip('_'))
    if not any(isinstance(n, ast.Return) for n in ast.walk(fn)):
        return None
    if not returns_none:
        return []
    when = [f for f in cls._fields if f in names and f != field]
    if uses_choice:
        for ch in getattr(cls, '_choice', ()):
            when += [f for f in ch.get('collection', ()) if f not in when]
    return when or None


# ------------------------------------------------------------------- part B2: classes that override to_node / from_node

class Unrecognised(Exception):
    pass


def _defining(cls, meth):
    from sarpy.io.xml.base import Serializable
    for b in cls.__mro__:
        if b is Serializable:
            return None
        if meth in b.__dict__:
            return b
    return None


def _is_name(n, name):
    return isinstance(n, ast.Name) and n.id == name


def _const_str(n):
    return n.value if isinstance(n, ast.Constant) and isinstance(n.value, str) else None


def _is_super_call(n, meth):
    """super(...).meth(...) or super().meth(...)"""
    return (isinstance(n, ast.Call) and isinstance(n.func, ast.Attribute) and n.func.attr == meth and
            isinstance(n.func.value, ast.Call) and _is_name(n.func.value.func, 'super'))


def _str_tuple(n):
    if isinstance(n, ast.Tuple) and all(_const_str(e) is not None for e in n.elts):
        return [e.value for e in n.elts]
    return None


def _only_names(n, allowed):
    return all(x.id in allowed for x in ast.walk(n) if isinstance(x, ast.Name))


def _body(fn):
    body = list(fn.body)
    if body and isinstance(body[0], ast.Expr) and isinstance(body[0].value, ast.Constant) and isinstance(body[0].value.value, str):
        body = body[1:]
    return body


def recognise_from_node(cls):
    """the from_node override of `cls` as (read_lists {kwargs key: tag}, divert_if [tags], divert_unless [tags], notes), if it has
    one of the stereotyped shapes (everything else raises Unrecognised):
        if kwargs is None: kwargs = ...                                      prelude
        K = cls._child_xml_ns_key.get('X', ns_key)                           namespace key of a child
        P = find_first_child(node, 'TAG', xml_ns, K)                         probe for a child
        kwargs['F'] = find_children(node, 'TAG', xml_ns, K)                  a list read by hand (hidden row, or a row of _fields)
        if P is not None: ...                                                legacy path taken when TAG is present  -> divert_if
        if P is None: ... return ...   [else: return super().from_node()]    legacy path taken when TAG is absent   -> divert_unless
        tests / raises / logging that mention only ns_key, xml_ns            namespace gate (outside the model)
        return super(C, cls).from_node(node, xml_ns, ns_key=ns_key, kwargs=kwargs)"""
    b = _defining(cls, 'from_node')
    if b is None:
        return {}, [], [], []
    f = b.__dict__['from_node']
    fn = _fn_ast(getattr(f, '__func__', f))
    if fn is None:
        raise Unrecognised('from_node: source not available')
    probes, read_lists, dif, dun, notes = {}, {}, [], [], []
    NS = {'ns_key', 'xml_ns', 'valid_ns', 'logger', 'validate_xml_ns', 'ValueError'}

    def is_super_return(st):
        if not (isinstance(st, ast.Return) and _is_super_call(st.value, 'from_node')):
            return False
        c = st.value
        ok = len(c.args) >= 2 and _is_name(c.args[0], 'node') and _is_name(c.args[1], 'xml_ns')
        kw = {k.arg: k.value for k in c.keywords}
        return ok and _is_name(kw.get('ns_key'), 'ns_key') and _is_name(kw.get('kwargs'), 'kwargs')

    def probe_test(t):
        """(probe var, 'present'|'absent') for `P is not None` / `P is None`"""
        if isinstance(t, ast.Compare) and len(t.ops) == 1 and isinstance(t.left, ast.Name) and t.left.id in probes and \
                isinstance(t.comparators[0], ast.Constant) and t.comparators[0].value is None:
            if isinstance(t.ops[0], ast.IsNot):
                return t.left.id, 'present'
            if isinstance(t.ops[0], ast.Is):
                return t.left.id, 'absent'
        return None

    def has_return(stmts):
        return any(isinstance(n, ast.Return) for st in stmts for n in ast.walk(st))

    body = _body(fn)
    done = False
    for st in body:
        if done:
            raise Unrecognised('from_node: statements after the delegating return')
        if isinstance(st, ast.If) and isinstance(st.test, ast.Compare) and _is_name(st.test.left, 'kwargs') and not st.orelse and \
                len(st.body) == 1 and isinstance(st.body[0], ast.Assign) and _is_name(st.body[0].targets[0], 'kwargs'):
            continue                                                            # kwargs prelude
        if isinstance(st, ast.Assign) and len(st.targets) == 1 and isinstance(st.targets[0], ast.Name) and isinstance(st.value, ast.Call):
            c = st.value
            if isinstance(c.func, ast.Attribute) and c.func.attr == 'get' and isinstance(c.func.value, ast.Attribute) and \
                    c.func.value.attr == '_child_xml_ns_key':
                continue                                                        # namespace key
            if _is_name(c.func, 'find_first_child') and len(c.args) >= 2 and _is_name(c.args[0], 'node') and _const_str(c.args[1]):
                probes[st.targets[0].id] = c.args[1].value
                continue
            if _only_names(c, NS):
                notes.append('namespace gate')
                continue
        if isinstance(st, ast.Assign) and len(st.targets) == 1 and isinstance(st.targets[0], ast.Subscript) and \
                _is_name(st.targets[0].value, 'kwargs') and _const_str(st.targets[0].slice) and isinstance(st.value, ast.Call) and \
                _is_name(st.value.func, 'find_children') and len(st.value.args) >= 2 and _is_name(st.value.args[0], 'node') and \
                _const_str(st.value.args[1]):
            read_lists[st.targets[0].slice.value] = st.value.args[1].value
            continue
        if isinstance(st, ast.If):
            pt = probe_test(st.test)
            if pt is not None:
                var, how = pt
                if how == 'present':
                    dif.append(probes[var])
                    if st.orelse:
                        if len(st.orelse) == 1 and is_super_return(st.orelse[0]) and has_return(st.body):
                            done = True
                            continue
                        raise Unrecognised('from_node: else branch of the legacy test is not the delegating return')
                    continue
                if has_return(st.body):
                    dun.append(probes[var])
                    if st.orelse:
                        if len(st.orelse) == 1 and is_super_return(st.orelse[0]):
                            done = True
                            continue
                        raise Unrecognised('from_node: else branch of the legacy test is not the delegating return')
                    continue
            if _only_names(st.test, NS) and all(_only_names(x, NS | {'cls', 'node', 'kwargs'} | {n for n in b.__module__.split('.')} | _class_names(b))
                                                for x in st.body + st.orelse):
                notes.append('namespace gate')
                continue
            raise Unrecognised('from_node: unrecognised test at line %d' % st.lineno)
        if is_super_return(st):
            done = True
            continue
        raise Unrecognised('from_node: unrecognised statement at line %d' % st.lineno)
    if not done:
        raise Unrecognised('from_node: no delegating return')
    return read_lists, dif, dun, notes


def _class_names(b):
    """names of classes visible in the module of b (other versions' root classes a namespace gate may dispatch to)"""
    mod = sys.modules.get(b.__module__)
    return {k for k, v in vars(mod).items() if inspect.isclass(v)} if mod is not None else set()


def recognise_to_node(cls):
    """the to_node override of `cls` as (excluded fields, emissions [('list', attr, tag|None=own tag) | ('single', field, tag)]):
        exclude = exclude + ('F', ...)
        node = super(C, self).to_node(doc, tag, ns_key=ns_key, parent=parent, ..., exclude=exclude [+ ('F', ...)])
        K = self._child_xml_ns_key.get('X', ns_key)
        [if self._F is not None and len(self._F) > 0:]  for entry in self._F: entry.to_node(doc, 'TAG' | tag, ..., parent=node, ...)
        if self.F is not None [and 'F' not in exclude]: self.F.to_node(doc, 'TAG', ..., parent=node, ...)
        return node"""
    b = _defining(cls, 'to_node')
    if b is None:
        return set(), []
    fn = _fn_ast(b.__dict__['to_node'])
    if fn is None:
        raise Unrecognised('to_node: source not available')
    excl, emis = set(), []
    node_var = [None]

    def excl_expr(n):
        """`exclude` or `exclude + (...)`"""
        if _is_name(n, 'exclude'):
            return []
        if isinstance(n, ast.BinOp) and isinstance(n.op, ast.Add) and _is_name(n.left, 'exclude') and _str_tuple(n.right) is not None:
            return _str_tuple(n.right)
        return None

    def child_call(c, recv_ok):
        """X.to_node(doc, TAG, ..., parent=node, ...) -> tag (None = own tag)"""
        if not (isinstance(c, ast.Call) and isinstance(c.func, ast.Attribute) and c.func.attr == 'to_node' and recv_ok(c.func.value)):
            return False
        kw = {k.arg: k.value for k in c.keywords}
        if len(c.args) < 2 or not _is_name(c.args[0], 'doc') or not _is_name(kw.get('parent'), node_var[0]):
            return False
        if _const_str(c.args[1]) is not None:
            return c.args[1].value
        if _is_name(c.args[1], 'tag'):
            return None
        return False

    def self_attr(n):
        return n.attr if isinstance(n, ast.Attribute) and _is_name(n.value, 'self') else None

    def list_loop(st):
        if isinstance(st, ast.For) and isinstance(st.target, ast.Name) and self_attr(st.iter) and len(st.body) == 1 and \
                isinstance(st.body[0], ast.Expr) and not st.orelse:
            t = child_call(st.body[0].value, lambda r: _is_name(r, st.target.id))
            if t is not False:
                return ('list', self_attr(st.iter), t)
        return None

    done = False
    for st in _body(fn):
        if done:
            raise Unrecognised('to_node: statements after return')
        if isinstance(st, ast.Assign) and len(st.targets) == 1 and _is_name(st.targets[0], 'exclude') and excl_expr(st.value) is not None:
            excl |= set(excl_expr(st.value))
            continue
        if isinstance(st, ast.Assign) and len(st.targets) == 1 and isinstance(st.targets[0], ast.Name) and _is_super_call(st.value, 'to_node'):
            c = st.value
            kw = {k.arg: k.value for k in c.keywords}
            if node_var[0] is not None or len(c.args) < 2 or not _is_name(c.args[0], 'doc') or not _is_name(c.args[1], 'tag') or \
                    not _is_name(kw.get('ns_key'), 'ns_key') or not _is_name(kw.get('parent'), 'parent') or excl_expr(kw.get('exclude')) is None:
                raise Unrecognised('to_node: the call of the generic writer is not the plain delegation')
            excl |= set(excl_expr(kw.get('exclude')))
            node_var[0] = st.targets[0].id
            continue
        if node_var[0] is None:
            raise Unrecognised('to_node: work before the generic writer at line %d' % st.lineno)
        if isinstance(st, ast.Assign) and isinstance(st.value, ast.Call) and isinstance(st.value.func, ast.Attribute) and \
                st.value.func.attr == 'get' and isinstance(st.value.func.value, ast.Attribute) and st.value.func.value.attr == '_child_xml_ns_key':
            continue
        ll = list_loop(st)
        if ll:
            emis.append(ll)
            continue
        if isinstance(st, ast.If) and not st.orelse and len(st.body) == 1:
            inner = list_loop(st.body[0])
            if inner and all(self_attr(x) in (None, inner[1]) for x in ast.walk(st.test) if isinstance(x, ast.Attribute)) and \
                    _only_names(st.test, {'self', 'len'}):
                emis.append(inner)
                continue
            # if self.F is not None [and 'F' not in exclude]: self.F.to_node(doc, 'TAG', ..., parent=node)
            if isinstance(st.body[0], ast.Expr):
                call = st.body[0].value
                recv = self_attr(call.func.value) if isinstance(call, ast.Call) and isinstance(call.func, ast.Attribute) else None
                t = child_call(call, lambda r: self_attr(r) == recv) if recv else False
                tests = st.test.values if isinstance(st.test, ast.BoolOp) and isinstance(st.test.op, ast.And) else [st.test]
                ok = bool(tests)
                for tt in tests:
                    if isinstance(tt, ast.Compare) and len(tt.ops) == 1 and self_attr(tt.left) == recv and isinstance(tt.ops[0], ast.IsNot) and \
                            isinstance(tt.comparators[0], ast.Constant) and tt.comparators[0].value is None:
                        continue
                    if isinstance(tt, ast.Compare) and len(tt.ops) == 1 and _const_str(tt.left) == recv and isinstance(tt.ops[0], ast.NotIn) and \
                            _is_name(tt.comparators[0], 'exclude'):
                        continue
                    ok = False
                if recv and t not in (False, None) and ok:
                    emis.append(('single', recv, t))
                    continue
        if isinstance(st, ast.Return) and _is_name(st.value, node_var[0]):
            done = True
            continue
        raise Unrecognised('to_node: unrecognised statement at line %d' % st.lineno)
    if not done:
        raise Unrecognised('to_node: no return of the node')
    return excl, emis


def hidden_child_class(cls, attr):
    """class of the objects kept in the hand-managed list `self.<attr>`: the unique Serializable subclass X for which a method of
    the class that touches self.<attr> calls X.from_node(...); None if that is not unique"""
    from sarpy.io.xml.base import Serializable
    found = set()
    for b in cls.__mro__:
        if b is Serializable:
            break
        mod = sys.modules.get(b.__module__)
        for name, f in b.__dict__.items():
            f = getattr(f, 'fset', None) or getattr(f, '__func__', f)
            if not inspect.isfunction(f):
                continue
            fn = _fn_ast(f)
            if fn is None:
                continue
            touches = any(isinstance(n, ast.Attribute) and _is_name(n.value, 'self') and n.attr == attr for n in ast.walk(fn))
            if not touches:
                continue
            for n in ast.walk(fn):
                if isinstance(n, ast.Call) and isinstance(n.func, ast.Attribute) and n.func.attr == 'from_node' and isinstance(n.func.value, ast.Name):
                    x = b if n.func.value.id in ('self', 'cls') else getattr(mod, n.func.value.id, None)
                    if inspect.isclass(x) and issubclass(x, Serializable):
                        found.add(x)
    return found.pop() if len(found) == 1 else None


_ARRAY_SHAPES = {}


def array_shape(ext):
    """an array class below SerializableArray as the model sees it: (tags of read-only text children written in FRONT of the
    entries, reasons why it cannot be modelled).  Recognised to_node override (everything else is a reason):
        anode = super(C, self).to_node(doc, tag, ns_key=ns_key, parent=parent, ...)
        if anode is None: return None
        n = create_text_node(doc, 'TAG' [if ns_key is None else '{}:TAG'.format(ns_key)], <text>, parent=anode)
        anode.remove(n); anode.insert(0, n)
        return anode
    (from_node of SerializableArray reads the child_tag children only, so such a child is derived, not stored.)"""
    if ext is None or ext in _ARRAY_SHAPES:
        return _ARRAY_SHAPES.get(ext, ([], []))
    front, reasons = [], []
    ov = array_overrides(ext)
    try:
        if 'from_node' in ov:
            raise Unrecognised('from_node is overridden')
        if 'to_node' in ov:
            from sarpy.io.xml.base import SerializableArray
            b = next(b for b in ext.__mro__ if b is not SerializableArray and 'to_node' in b.__dict__)
            fn = _fn_ast(b.__dict__['to_node'])
            if fn is None:
                raise Unrecognised('to_node: source not available')
            node_var, pending, moved = None, {}, {}
            done = False
            for st in _body(fn):
                if done:
                    raise Unrecognised('to_node: statements after return')
                if isinstance(st, ast.Assign) and len(st.targets) == 1 and isinstance(st.targets[0], ast.Name) and _is_super_call(st.value, 'to_node') \
                        and node_var is None:
                    c = st.value
                    kw = {k.arg: k.value for k in c.keywords}
                    if len(c.args) >= 2 and _is_name(c.args[0], 'doc') and _is_name(c.args[1], 'tag') and _is_name(kw.get('ns_key'), 'ns_key') and \
                            _is_name(kw.get('parent'), 'parent'):
                        node_var = st.targets[0].id
                        continue
                if node_var is None:
                    raise Unrecognised('to_node: work before the generic array writer')
                if isinstance(st, ast.If) and not st.orelse and len(st.body) == 1 and isinstance(st.body[0], ast.Return) and \
                        isinstance(st.test, ast.Compare) and _is_name(st.test.left, node_var) and isinstance(st.test.ops[0], ast.Is):
                    continue                                       # an empty array writes nothing
                if isinstance(st, ast.Assign) and len(st.targets) == 1 and isinstance(st.targets[0], ast.Name) and isinstance(st.value, ast.Call) and \
                        _is_name(st.value.func, 'create_text_node'):
                    c = st.value
                    kw = {k.arg: k.value for k in c.keywords}
                    tagx = c.args[1] if len(c.args) >= 2 else None
                    if isinstance(tagx, ast.IfExp):
                        tagx = tagx.body
                    if _const_str(tagx) is not None and _is_name(kw.get('parent'), node_var):
                        pending[st.targets[0].id] = tagx.value
                        continue
                if isinstance(st, ast.Expr) and isinstance(st.value, ast.Call) and isinstance(st.value.func, ast.Attribute) and \
                        _is_name(st.value.func.value, node_var):
                    c = st.value
                    if c.func.attr == 'remove' and len(c.args) == 1 and isinstance(c.args[0], ast.Name) and c.args[0].id in pending:
                        moved[c.args[0].id] = 'removed'
                        continue
                    if c.func.attr == 'insert' and len(c.args) == 2 and isinstance(c.args[0], ast.Constant) and c.args[0].value == 0 and \
                            isinstance(c.args[1], ast.Name) and moved.get(c.args[1].id) == 'removed':
                        moved[c.args[1].id] = 'front'
                        front.insert(0, pending[c.args[1].id])
                        continue
                if isinstance(st, ast.Return) and _is_name(st.value, node_var):
                    done = True
                    continue
                raise Unrecognised('to_node: unrecognised statement at line %d' % st.lineno)
            if not done or any(moved.get(v) != 'front' for v in pending):
                raise Unrecognised('to_node: a text child is not moved to the front')
    except Unrecognised as e:
        reasons.append('array class overrides %s in a shape the translator does not recognise (%s)' % ('/'.join(ov), e))
        front = []
    _ARRAY_SHAPES[ext] = (front, reasons)
    return _ARRAY_SHAPES[ext]


# Hook for the C05X builder: classes whose to_node / from_node are VALUE codecs (they re-encode numbers, they are not a
# re-arrangement of rows).  They stay opaque in this model; once Spec.XmlFmt carries a model of the codec with its own round-trip
# lemma (equivalence "as coefficient arrays with absent terms read as zero"), the pairing below is where it plugs in: the walk
# already pairs each of them with its XSD type (listed per run in `codec_hook_pairs`).  Matched by class name along the MRO.
CODEC_HOOKS = {
    'Poly1DType': 'polynomial coefficient array (order1 attribute + Coef elements with exponent1)',
    'Poly2DType': 'polynomial coefficient array (order1/order2 attributes + Coef elements with exponent1/exponent2)',
    'LineType': 'indexed array of Endpoint elements (CPHD GeoInfo)',
    'PolygonType': 'indexed array of Vertex elements (CPHD GeoInfo)',
    'LUTInfoType': 'lookup-table value arrays (SIDD)',
    '_CustomType': 'filter coefficient array (SIDD)',
}


def codec_hook(cls):
    from sarpy.io.xml.base import Serializable
    if not overrides(cls):
        return None
    for b in cls.__mro__:
        if b is Serializable:
            break
        if b.__name__ in CODEC_HOOKS and ('to_node' in b.__dict__ or 'from_node' in b.__dict__):
            return CODEC_HOOKS[b.__name__]
    return None


_SHAPES = {}


class Shape:
    """a class as the model sees it: rows in OUTPUT order (hidden list rows included), legacy guards, and the reasons why it
    cannot be modelled (empty = modellable)"""
    def __init__(self):
        self.rows, self.divert_if, self.divert_unless, self.reasons, self.notes = [], [], [], [], []
        self.hook = None


def class_shape(cls):
    if cls in _SHAPES:
        return _SHAPES[cls]
    sh = Shape()
    rows = class_rows(cls)
    sh.rows = rows
    ov = overrides(cls)
    if ov:
        try:
            read_lists, dif, dun, notes = recognise_from_node(cls)
            excl, emis = recognise_to_node(cls)
            sh.notes = notes
            by_field = {r.field: r for r in rows}
            out = [r for r in rows if r.field not in excl]
            emitted = set()
            for kind, name, tag in emis:
                if kind == 'list':
                    key = next((k for k in read_lists if k == name or k == name.lstrip('_')), None)
                    if key is None:
                        raise Unrecognised('to_node writes the list self.%s that from_node does not read' % name)
                    rtag = read_lists[key]
                    if tag is not None and tag != rtag:
                        raise Unrecognised('list %s is read from %s children and written as %s' % (key, rtag, tag))
                    if key in by_field and by_field[key] in out:
                        raise Unrecognised('list %s is written by the generic writer and by hand' % key)
                    r = Row(field=key, tag=rtag, kind='list', required=False, cls=hidden_child_class(cls, name), child_tag=rtag,
                            nskey=cls._child_xml_ns_key.get(key, None), descr='hand-managed list', hidden=True, write_self=(tag is None))
                    out.append(r)
                    emitted.add(key)
                else:
                    r = by_field.get(name)
                    if r is None or name not in excl or r.kind not in ('child', 'prim', 'propstored') or tag != r.tag:
                        raise Unrecognised('to_node writes self.%s by hand in a way the table cannot express' % name)
                    out.append(r)
                    emitted.add(name)
            for k in read_lists:
                if k not in emitted:
                    raise Unrecognised('from_node reads the list %s that to_node never writes' % k)
            for f in excl:
                if f in by_field and f not in emitted and f not in read_lists:
                    raise Unrecognised('field %s is excluded from the generic writer and not written by hand' % f)
            sh.rows = out
            sh.divert_if, sh.divert_unless = dif, dun
        except Unrecognised as e:
            hook = codec_hook(cls)
            if hook:
                sh.reasons.append('class overrides %s with a value codec: %s - hook for the C05X model' % ('/'.join(ov), hook))
                sh.hook = hook
            else:
                sh.reasons.append('class overrides %s in a shape the translator does not recognise (%s)' % ('/'.join(ov), e))
    for r in sh.rows:
        if r.kind == 'other':
            sh.reasons.append('field %s is not descriptor-driven (%s)' % (r.field, r.descr))
        if r.kind == 'list' and r.hidden and r.cls is None:
            sh.notes.append('class of the hand-managed list %s not identified: its elements are opaque' % r.field)
    _SHAPES[cls] = sh
    return sh


def all_classes():
    """{package key: {qualified name: class}} of every Serializable subclass defined in the element packages"""
    load_sarpy()
    from sarpy.io.xml.base import Serializable
    out = {}
    for key, p in PACKAGES.items():
        pk = importlib.import_module(p)
        d = {}
        for m in pkgutil.iter_modules(pk.__path__):
            mod = importlib.import_module(p + '.' + m.name)
            for n, c in inspect.getmembers(mod, inspect.isclass):
                if issubclass(c, Serializable) and c.__module__.startswith(p):
                    d[c.__module__ + '.' + n] = c
        out[key] = d
    return out


# ----------------------------------------------------------------------------------------------- schema versions

def schema_versions():
    """[(label, family, urn/namespace of the root element, xsd path, root class, root tag, ns map for serialisation)]"""
    load_sarpy()
    from sarpy.io.complex import sicd_schema
    from sarpy.io.product import sidd_schema
    from sarpy.io.phase_history import cphd_schema
    from sarpy.io.received import crsd_schema
    from sarpy.io.complex.sicd_elements.SICD import SICDType
    from sarpy.io.product.sidd1_elements.SIDD import SIDDType as SIDD1
    from sarpy.io.product.sidd2_elements.SIDD import SIDDType as SIDD2
    from sarpy.io.product.sidd3_elements.SIDD import SIDDType as SIDD3
    from sarpy.io.phase_history.cphd1_elements.CPHD import CPHDType
    from sarpy.io.received.crsd1_elements.CRSD import CRSDType
    out = []
    for urn in sicd_schema.get_versions():
        d = sicd_schema.urn_mapping[urn]
        if 'schema' in d:
            out.append(dict(label='SICD-' + d['version'], family='sicd', ns=urn, xsd=d['schema'], cls=SICDType, tag='SICD', pkg='sicd'))
    sidd_cls = {'1': (SIDD1, 'sidd1'), '2': (SIDD2, 'sidd2'), '3': (SIDD3, 'sidd3')}
    for urn, d in sorted(sidd_schema.urn_mapping.items()):
        if 'schema' in d:
            c, pkg = sidd_cls[d['version'][0]]
            out.append(dict(label='SIDD-' + d['version'], family=pkg, ns=urn, xsd=d['schema'], cls=c, tag='SIDD', pkg=pkg,
                            ns_extra={'sicommon': d['sicommon_urn'], 'sfa': d['sfa_urn'], 'ism': d['ism_urn']}))
    for urn, d in sorted(cphd_schema.urn_mapping.items()):
        if 'schema' in d:
            out.append(dict(label='CPHD-' + d['version'], family='cphd', ns=cphd_schema.get_namespace(d['version']), xsd=d['schema'],
                            cls=CPHDType, tag='CPHD', pkg='cphd'))
    for urn, d in sorted(crsd_schema.urn_mapping.items()):
        if 'schema' in d:
            out.append(dict(label='CRSD-' + d['version'], family='crsd', ns=crsd_schema.get_namespace(d['version']), xsd=d['schema'],
                            cls=CRSDType, tag='CRSD', pkg='crsd'))
    return out


# ---------------------------------------------------------------------------------------- part C: the lockstep walk

class Interner:
    def __init__(self):
        self.ids = {}
        self.names = []

    def __call__(self, name):
        if name not in self.ids:
            self.ids[name] = len(self.names)
            self.names.append(name)
        return self.ids[name]


def resolve_ns(nsmap, key):
    """namespace URI for a sarpy ns key (None -> no namespace; 'default' -> the default namespace)"""
    if key is None:
        return None
    return nsmap.get(key)


class Pair:
    def __init__(self, label, cls, type_name, path, pycls=None):
        self.label, self.cls, self.type_name, self.path, self.pycls = label, cls, type_name, path, pycls
        self.status = None       # conforming | conforming_weak | outside_fragment | nonconforming
        self.reasons = []
        self.table = None        # list of lean rows
        self.model = None
        self.extra_rows = []
        self.keys = []
        self.cls_key = None      # identity of the class side (class, namespace key) / array pseudo-class
        self.ct = None           # the complex type object
        self.rowinfo = None      # [(lean tag, row kind, child class key | None)]
        self.guards = ((), ())   # (divert_if, divert_unless) Clark names
        self.notes = []

    @property
    def key(self):
        return '%s:%s~%s' % (self.label, self.cls, self.type_name)


def effective_rows(cls, ns_key, nsmap):
    """class rows with tags resolved to Clark names the way to_node/from_node resolve them.
       element rows: namespace = _child_xml_ns_key[field] if present else the inherited ns_key (base.py:985-988, 1161-1166);
       attribute rows: namespace only from _child_xml_ns_key (base.py:998-1000, 1156-1157)."""
    rows = class_shape(cls).rows
    out = []
    for r in rows:
        if r.kind == 'attr':
            k = r.attr_nskey
            ns = None if k in (None, 'default') else nsmap.get(k)
            out.append((r, q(ns, r.tag), None, k))
        else:
            k = r.nskey if r.nskey is not None else ns_key
            ns = resolve_ns(nsmap, k)
            out.append((r, q(ns, r.tag), q(ns, r.child_tag) if r.child_tag else None, k))
    return out


def required_tags(groups):
    """mirror of Spec.XsdFmt.requiredTags: element particles standing directly in the top-level sequence with minOccurs >= 1"""
    return [g[1] for g in groups if g[0] == 'elem' and g[2] >= 1]


def conforms_py(table, model, strict, guards=((), ())):
    """Python mirror of Sarpy.Spec.XsdFmt.conformsB / conformsWeakB (the Lean `decide` is the authority; this mirror only
    selects which statement to emit and words the reasons).  table: list of dict(tag, kind attr/single/multi);
    model: (attrs [(tag, required)], groups, simple).  Returns (ok, reasons, extra) with reasons = [(kind, item, text)]:
    kind in attribute-dropped / element-dropped / order / table."""
    reasons = []
    attrs, groups, simple = model
    arows = [t for t in table if t['kind'] == 'attr']
    erows = [t for t in table if t['kind'] != 'attr']
    mtags = model_tags(groups)
    if len(set(mtags)) != len(mtags):
        reasons.append(('table', 'repeated-particle', 'content model repeats a tag: ' + ','.join(sorted({local(t) for t in mtags if mtags.count(t) > 1}))))
    atags = [a[0] for a in attrs]
    for a in atags:
        if a not in [t['tag'] for t in arows]:
            reasons.append(('attribute-dropped', '@' + local(a), 'attribute %s has no row' % local(a)))
    rtags = [t['tag'] for t in erows]
    if len(set(rtags)) != len(rtags):
        reasons.append(('table', 'repeated-row', 'table repeats a tag: ' + ','.join(sorted({local(t) for t in rtags if rtags.count(t) > 1}))))
    if len(set(t['tag'] for t in arows)) != len(arows):
        reasons.append(('table', 'repeated-attribute-row', 'table repeats an attribute'))
    extra = [t['tag'] for t in arows if t['tag'] not in atags] + [t for t in rtags if t not in mtags]
    kept = [t for t in rtags if t in mtags]
    if kept != mtags:
        missing = [t for t in mtags if t not in rtags]
        for m in missing:
            reasons.append(('element-dropped', '.' + local(m), 'element %s has no row' % local(m)))
        if not missing and len(set(mtags)) == len(mtags) and len(set(rtags)) == len(rtags):
            first = next(local(a) for a, b in zip(kept, mtags) if a != b)
            reasons.append(('order', '', 'order: rows %s vs particles %s (first misplaced row %s)' % ([local(t) for t in kept], [local(t) for t in mtags], first)))
    bounds = {}
    for g in groups:
        if g[0] == 'elem':
            bounds[g[1]] = g[3]
        else:
            for alt in g[2]:
                for e in alt:
                    bounds[e[0]] = e[2]
    for t in erows:
        if t['tag'] in bounds and t['kind'] in ('single', 'derived') and (bounds[t['tag']] is None or bounds[t['tag']] > 1):
            reasons.append(('element-dropped', '.' + local(t['tag']), 'element %s may occur %s times but the row holds one value' % (
                local(t['tag']), 'unbounded' if bounds[t['tag']] is None else bounds[t['tag']])))
    for t in guards[0]:
        if t in mtags:
            reasons.append(('legacy-guard', '.' + local(t), 'from_node takes its legacy path when %s is present, and the type allows %s' % (local(t), local(t))))
    for t in guards[1]:
        if t not in required_tags(groups):
            reasons.append(('legacy-guard', '.' + local(t), 'from_node takes its legacy path when %s is absent, and the type does not require %s' % (local(t), local(t))))
    ok = not reasons
    if strict and extra:
        ok = False
    return ok, reasons, extra


def qual_class(cls):
    """(package key, 'Module.Class') of an element class: sarpy.io.complex.sicd_elements.MatchInfo.MatchType -> ('sicd', 'MatchInfo.MatchType');
    classes outside the element packages (sarpy.io.xml.base.SerializableArray) -> ('xml', 'base.SerializableArray')"""
    mod = cls.__module__
    for key, p in PACKAGES.items():
        if mod.startswith(p + '.'):
            return key, mod[len(p) + 1:] + '.' + cls.__name__
    return mod.split('.')[-2] if '.' in mod else mod, mod.split('.')[-1] + '.' + cls.__name__


def family_of(ver):
    """SICD 0.x is kept apart (the element classes describe SICD 1.x; DESIGN.md 6/C06)"""
    if ver['family'] == 'sicd' and ver['label'].startswith('SICD-0.'):
        return 'sicd0'
    return ver['family']


def make_key(ver, cls, kind, item):
    """stable key of a defect: <package of the class that reads the element | sicd0>:<kind>:<Module.Class><item>"""
    pkg, name = qual_class(cls)
    if family_of(ver) == 'sicd0':
        pkg = 'sicd0'
    return '%s:%s:%s%s' % (pkg, kind, name, item)


class Walker:
    """walks one schema version; produces Pair objects"""

    def __init__(self, ver, intern):
        self.ver = ver
        self.schema = Schema(ver['xsd'])
        self.intern = intern
        self.pairs = {}
        self.order = []
        self.unreached = []
        # namespace map as sarpy sees a document of this version: 'default' -> root ns, plus the prefixes of the examples
        self.nsmap = {'default': ver['ns']}
        self.nsmap.update(ver.get('ns_extra', {}))

    def walk(self):
        root = self.schema.global_element(q(self.ver['ns'], self.ver['tag']))
        if root is None:
            raise ValueError('root element %s not found in %s' % (self.ver['tag'], self.ver['xsd']))
        ns_key = 'default' if self.ver['family'].startswith('sidd') else None
        # SICD/CPHD/CRSD from_xml_string pass ns_key 'default' as well when the document declares a default namespace;
        # tags are then looked up in that namespace either way.  For the walk, element names are namespace-resolved with 'default'.
        self.visit(self.ver['cls'], root.type, 'default', self.ver['tag'], q(self.ver['ns'], self.ver['tag']))
        return self

    def type_label(self, t):
        n = t.name
        return local(n) if not n.startswith('anon:') else n

    def visit(self, cls, ct, ns_key, path, own_tag=None):
        name = cls.__name__
        tname = self.type_label(ct) if ct is not None else '?'
        key = (cls.__module__ + '.' + name, tname, ns_key)
        if key in self.pairs:
            return
        p = Pair(self.ver['label'], '.'.join(qual_class(cls)), tname, path, cls)
        p.cls_key = (cls, ns_key)
        p.ct = ct
        self.pairs[key] = p
        self.order.append(p)
        if not isinstance(ct, ComplexType):
            p.status = 'outside_fragment'
            p.reasons.append('class paired with simple type %s' % tname)
            return
        shape = class_shape(cls)
        rows = effective_rows(cls, ns_key, self.nsmap)
        outside = list(shape.reasons)
        p.notes = list(shape.notes)

        def gtag(t):
            return q(resolve_ns(self.nsmap, cls._child_xml_ns_key.get(t, ns_key)), t)
        p.guards = (tuple(gtag(t) for t in shape.divert_if), tuple(gtag(t) for t in shape.divert_unless))
        try:
            groups = flatten_model(ct)
        except Outside as e:
            groups = None
            outside.append('type %s: %s' % (tname, e))
        # table in the Lean shape
        table = []
        ns_asym = set()
        for r, tag, ctag, k in rows:
            if r.kind == 'attr':
                # to_node resolves an attribute's namespace with the INHERITED key (base.py:1156), from_node without it (base.py:998):
                # in a non-default namespace an attribute without its own _child_xml_ns_key entry is written prefixed.  The table
                # carries the name that is WRITTEN, so that the declared (unqualified) attribute is seen to have no row.
                if attr_ns_inherited() and r.attr_nskey is None and ns_key not in (None, 'default') and q(resolve_ns(self.nsmap, ns_key), r.tag) != tag:
                    ns_asym.add(r.tag)
                    tag = q(resolve_ns(self.nsmap, ns_key), r.tag)
                table.append(dict(tag=tag, kind='attr', field=r.field, required=r.required))
            elif r.kind in ('prim', 'child', 'complex', 'array', 'farray', 'propstored'):
                table.append(dict(tag=tag, kind='single', field=r.field, required=r.required))
            elif r.kind in ('list', 'primlist', 'params'):
                table.append(dict(tag=ctag, kind='multi', field=r.field, required=r.required))
                if r.write_self and own_tag is not None and own_tag != ctag:
                    outside.append('the hand-managed list %s is read from %s children and written under the element\'s own tag %s' % (
                        r.field, local(ctag), local(own_tag)))
            elif r.kind == 'derived':
                table.append(dict(tag=tag, kind='derived', field=r.field, required=r.required))
            # kind 'other': already among shape.reasons
        p.table = table
        if groups is not None:
            groups = order_alternatives(groups, [t['tag'] for t in table if t['kind'] != 'attr'])
        p.rowinfo = []
        for r, tag, ctag, k in rows:
            if r.kind in ('child',):
                p.rowinfo.append((tag, 'class', (r.cls, k)))
            elif r.kind == 'list' and r.cls is None:
                p.rowinfo.append((ctag, 'opaque', None))
            elif r.kind == 'list':
                p.rowinfo.append((ctag, 'class', (r.cls, k)))
            elif r.kind == 'derived':
                p.rowinfo.append((tag, 'leaf', None))
            elif r.kind == 'propstored':
                p.rowinfo.append((tag, 'opaque', None))
            elif r.kind == 'array':
                p.rowinfo.append((tag, 'class', ('array', r.descr, r.size_attr, ctag, r.cls, k)))
            elif r.kind == 'prim':
                p.rowinfo.append((tag, 'leaf', None))
            elif r.kind == 'primlist':
                p.rowinfo.append((ctag, 'leaf', None))
            elif r.kind in ('complex', 'farray'):
                p.rowinfo.append((tag, 'opaque', None))
            elif r.kind == 'params':
                p.rowinfo.append((ctag, 'opaque', None))
        attrs = [(a.qname, a.use == 'required') for a in ct.attrs if a.use != 'prohibited']
        p.model = (attrs, groups, ct.simple is not None)
        if groups is not None:
            ok_s, reasons, extra = conforms_py(table, p.model, True, p.guards)
            ok_w, _, _ = conforms_py(table, p.model, False, p.guards)
            reasons = [(('namespace-changed', r[1], 'attribute %s is read unqualified but written with the inherited namespace key %s (base.py:998 vs 1156)' % (r[1][1:], ns_key))
                        if (r[0] == 'attribute-dropped' and r[1][1:] in ns_asym) else r) for r in reasons]
            p.extra_rows = [local(t) for t in extra]
            if outside:
                p.status = 'outside_fragment'
                p.reasons = outside + ['(table check: %s)' % ('; '.join(r[2] for r in reasons) if reasons else 'consistent')]
            elif ok_s:
                p.status = 'conforming'
            elif ok_w:
                p.status = 'conforming_weak'
                p.reasons = ['rows without a particle: ' + ', '.join(p.extra_rows)]
            elif family_of(self.ver) == 'sicd0' and all((r[0] in ('element-dropped', 'attribute-dropped') and 'has no row' in r[2]) or r[0] == 'legacy-guard'
                                                        for r in reasons):
                # DESIGN.md 6/C06: for SICD 0.x the round trip is claimed only for what the current classes model; a 0.x element that
                # sends from_node down its legacy (pre-1.0) conversion path is exactly that: converted, not round-tripped
                p.status = 'outside_fragment'
                p.reasons = ['SICD 0.x content the current class does not model (listed, not claimed): ' + '; '.join(r[2] for r in reasons)]
            else:
                p.status = 'nonconforming'
                p.reasons = [r[2] for r in reasons]
                p.keys = sorted({make_key(self.ver, cls, r[0], r[1]) for r in reasons
                                 if not (family_of(self.ver) == 'sicd0' and 'has no row' in r[2])})
        else:
            p.status = 'outside_fragment'
            p.reasons = outside
        # recurse: children by name
        declared = {}
        self._collect_elems(ct.content, declared)
        for r, tag, ctag, k in rows:
            if r.kind in ('child', 'list', 'array'):
                if r.cls is None:
                    continue
                look = tag if r.kind != 'list' else ctag
                e = declared.get(look)
                if e is None:
                    continue
                t = e.type
                if r.kind == 'array':
                    # container element: its type holds child_tag children
                    if isinstance(t, ComplexType):
                        inner = {}
                        self._collect_elems(t.content, inner)
                        ce = inner.get(ctag)
                        self.array_pair(r, t, tag, ctag, ce, path + '/' + r.tag, k)
                        if ce is not None and isinstance(ce.type, ComplexType):
                            self.visit(r.cls, ce.type, k, path + '/' + r.tag + '/' + r.child_tag, ctag)
                        elif ce is not None:
                            self.visit(r.cls, ce.type, k, path + '/' + r.tag + '/' + r.child_tag, ctag)
                    continue
                self.visit(r.cls, t, k, path + '/' + (r.tag if r.kind != 'list' else r.child_tag), look)

    def array_pair(self, r, t, tag, ctag, ce, path, k=None):
        """SerializableArray container: pseudo class with rows [attr size, multi child_tag]"""
        key = ('array:' + r.descr + ':' + (r.size_attr or '-') + ':' + ctag, self.type_label(t), None)
        if key in self.pairs:
            return
        ext = r.ext
        if ext is None:
            from sarpy.io.xml.base import SerializableArray as ext
        p = Pair(self.ver['label'], '.'.join(qual_class(ext)) + '[%s]' % local(ctag), self.type_label(t), path, ext)
        p.cls_key = ('array', r.descr, r.size_attr, ctag, r.cls, k)
        p.ct = t
        p.rowinfo = [(ctag, 'class', (r.cls, k))]
        self.pairs[key] = p
        self.order.append(p)
        table = []
        if r.size_attr:
            table.append(dict(tag=r.size_attr, kind='attr', field='size', required=True))
        front, areasons = array_shape(r.ext)
        for ft in front:
            # a read-only text child the array class writes in front of its entries (SegmentList/NumSegments)
            ftq = q(nsof(ctag), ft)
            table.append(dict(tag=ftq, kind='derived', field=ft, required=True))
            p.rowinfo.append((ftq, 'leaf', None))
        table.append(dict(tag=ctag, kind='multi', field='array', required=True))
        p.table = table
        if areasons:
            p.status = 'outside_fragment'
            p.reasons = list(areasons)
            return
        try:
            groups = flatten_model(t)
        except Outside as e:
            p.status = 'outside_fragment'
            p.reasons = ['type %s: %s' % (self.type_label(t), e)]
            return
        attrs = [(a.qname, a.use == 'required') for a in t.attrs if a.use != 'prohibited']
        p.model = (attrs, groups, t.simple is not None)
        ok_s, reasons, extra = conforms_py(table, p.model, True)
        ok_w, _, _ = conforms_py(table, p.model, False)
        p.extra_rows = [local(x) for x in extra]
        p.status = 'conforming' if ok_s else ('conforming_weak' if ok_w else 'nonconforming')
        p.reasons = [r[2] for r in reasons] if not ok_w else (['rows without a particle: ' + ', '.join(p.extra_rows)] if not ok_s else [])
        if not ok_w and family_of(self.ver) == 'sicd0' and all('has no row' in r[2] for r in reasons):
            p.status = 'outside_fragment'
            p.reasons = ['SICD 0.x content the current class does not model (listed, not claimed): ' + '; '.join(r[2] for r in reasons)]
        elif not ok_w:
            p.keys = sorted({make_key(self.ver, ext, r[0], r[1]) for r in reasons})

    def closure(self, intern):
        """finite presentation of this version for `closedB`: classes whose every pairing conforms are listed with their
        tables, the others are opaque (not listed); returns (classes, types, pairs, root pair, opaque class names)"""
        good = {}
        for p in self.order:
            if p.cls_key is None:
                continue
            ok = p.status in ('conforming', 'conforming_weak') and p.model is not None and p.model[1] is not None
            good[p.cls_key] = good.get(p.cls_key, True) and ok
        cls_ids, type_ids = {}, {}

        def cid(key):
            if key not in cls_ids:
                cls_ids[key] = len(cls_ids) + 2
            return cls_ids[key]

        def tid(t):
            if isinstance(t, SimpleType):
                return 1
            if id(t) not in type_ids:
                type_ids[id(t)] = len(type_ids) + 2
            return type_ids[id(t)]
        fresh = [1000000]

        def opaque_id():
            fresh[0] += 1
            return fresh[0]
        classes = {0: '⟨0, [], [], [], []⟩'}
        types = {1: '⟨1, ⟨[], []⟩, []⟩'}
        pairs = [(0, 1)]
        opaque_names = sorted({p.cls for p in self.order if p.cls_key is not None and not good.get(p.cls_key, False)})
        opaque_of = {}
        for p in self.order:
            if p.cls_key is None or not good.get(p.cls_key, False):
                continue
            c, t = cid(p.cls_key), tid(p.ct)
            parts = {}
            for g in p.model[1]:
                if g[0] == 'elem':
                    parts[g[1]] = g[4]
                else:
                    for alt in g[2]:
                        for e in alt:
                            parts[e[0]] = e[3]
            rowmap = {tag: (kind, ck) for tag, kind, ck in p.rowinfo}
            cchildren, tchildren = [], []
            for tag, e in parts.items():
                et = e.type
                ct_id = tid(et)
                kind, ck = rowmap.get(tag, ('opaque', None))
                if kind == 'leaf' and isinstance(et, SimpleType):
                    cc_id = 0
                elif kind == 'class' and good.get(ck, False):
                    cc_id = cid(ck)
                else:
                    okey = (p.cls_key, tag)
                    if okey not in opaque_of:
                        opaque_of[okey] = opaque_id()
                    cc_id = opaque_of[okey]
                cchildren.append((intern(tag), cc_id))
                tchildren.append((intern(tag), ct_id))
                if (cc_id, ct_id) not in pairs:
                    pairs.append((cc_id, ct_id))
            if c not in classes:
                classes[c] = '⟨%d, %s, [%s], %s, %s⟩' % (c, lean_table(p.table, intern), ', '.join('(%d, %d)' % x for x in cchildren),
                                                         lean_names(p.guards[0], intern), lean_names(p.guards[1], intern))
            if t not in types:
                types[t] = '⟨%d, %s, [%s]⟩' % (t, lean_model(p.model, intern), ', '.join('(%d, %d)' % x for x in tchildren))
            if (c, t) not in pairs:
                pairs.append((c, t))
        root_key = (self.ver['cls'], 'default')
        root = (cls_ids.get(root_key), None)
        return classes, types, pairs, opaque_names

    def _collect_elems(self, p, out):
        if p is None:
            return
        if isinstance(p, Elem):
            out.setdefault(p.qname, p)
        elif isinstance(p, Group):
            for it in p.items:
                self._collect_elems(it, out)


# ------------------------------------------------------------------------------------------------- Lean emission

def lean_names(tags, intern):
    return '[' + ', '.join(str(intern(t)) for t in tags) + ']'


def lean_table(table, intern):
    rows = []
    for t in table:
        k = {'attr': '.attr', 'single': '.single', 'multi': '.multi', 'derived': '.derived'}[t['kind']]
        rows.append('⟨%d, %s⟩' % (intern(t['tag']), k))
    return '[' + ', '.join(rows) + ']'


def lean_model(model, intern):
    attrs, groups, simple = model
    la = '[' + ', '.join('⟨%d, %s⟩' % (intern(a), 'true' if r else 'false') for a, r in attrs) + ']'

    def ep(tag, mn, mx):
        return '⟨%d, %d, %s⟩' % (intern(tag), mn, 'none' if mx is None else 'some %d' % mx)
    gs = []
    for g in groups:
        if g[0] == 'elem':
            gs.append('.elem ' + ep(g[1], g[2], g[3]))
        else:
            alts = '[' + ', '.join('[' + ', '.join(ep(e[0], e[1], e[2]) for e in alt) + ']' for alt in g[2]) + ']'
            gs.append('.choice %s %s' % ('true' if g[1] else 'false', alts))
    return '⟨%s, [%s]⟩' % (la, ', '.join(gs))


def ident(s):
    return re.sub(r'[^A-Za-z0-9]', '_', s)


def known_open_keys():
    p = os.path.join(HERE, '..', 'known_findings.json')
    try:
        kf = json.load(open(p))
    except Exception:
        return set()
    return {f.get('key') for f in kf.get('open', []) if f.get('property') == 'C06'}


def generate(out_path, write=True):
    """walk every bundled schema version, write Gen/XsdPairs.lean, return a summary dict (also used by the harness)"""
    load_sarpy()
    intern = Interner()
    versions = schema_versions()
    walkers = []
    for v in versions:
        walkers.append(Walker(v, intern).walk())
    known = known_open_keys()
    # identical (table, model) texts are emitted once
    defs = {}
    lines = []
    summary = {'versions': {}, 'pairs': [], 'unsupported_constructs': {}}
    conform_thms, weak_thms, neg_thms, failing = [], [], [], []
    listing = []
    for w in walkers:
        cnt = {'conforming': 0, 'conforming_weak': 0, 'outside_fragment': 0, 'nonconforming': 0}
        for p in w.order:
            cnt[p.status] += 1
            rec = {'version': p.label, 'class': p.cls, 'type': p.type_name, 'path': p.path, 'status': p.status, 'reasons': p.reasons,
                   'notes': p.notes}
            hk = _SHAPES[p.pycls].hook if p.pycls in _SHAPES else None
            if hk and p.status == 'outside_fragment':
                rec['hook'] = hk
            summary['pairs'].append(rec)
            if p.status == 'outside_fragment' or p.model is None or p.model[1] is None:
                listing.append('("%s", "%s", "%s", "%s")' % (p.label, p.cls, p.type_name, '; '.join(p.reasons).replace('"', "'")[:300]))
                continue
            tt, mm = lean_table(p.table, intern), lean_model(p.model, intern)
            gi, gu = lean_names(p.guards[0], intern), lean_names(p.guards[1], intern)
            h = hashlib.sha1((tt + '|' + mm + ('|' + gi + '|' + gu if (p.guards[0] or p.guards[1]) else '')).encode()).hexdigest()[:10]
            nm = 'p_' + ident(p.cls.split('.', 1)[-1]) + '_' + h
            rec['obligation'] = nm
            rec['keys'] = p.keys
            if nm in defs:
                defs[nm]['versions'].append(p.label)
                defs[nm]['keys'] = sorted(set(defs[nm]['keys']) | set(p.keys))
                continue
            defs[nm] = {'versions': [p.label], 'status': p.status, 'cls': p.cls, 'type': p.type_name, 'tt': tt, 'mm': mm,
                        'reasons': p.reasons, 'keys': list(p.keys), 'gi': gi, 'gu': gu, 'guarded': bool(p.guards[0] or p.guards[1]),
                        'features': sorted({t['kind'] for t in p.table if t['kind'] == 'derived'} |
                                           ({'guards'} if (p.guards[0] or p.guards[1]) else set()) |
                                           ({'override'} if overrides(p.pycls) else set()) |
                                           ({'stored-property'} if p.pycls is not None and hasattr(p.pycls, '_fields') and any(
                                               r.kind == 'propstored' or r.descr == 'property' for r in class_shape(p.pycls).rows) else set()))}
        summary['versions'][w.ver['label']] = cnt
        us = {}
        for where, what in w.schema.unsupported:
            us.setdefault(what.split(' ')[0] + (' ' + what.split(' ')[1] if what.startswith('xs:') is False and len(what.split(' ')) > 1 and what.split(' ')[0] in ('mixed',) else ''), []).append(local(where))
        summary['unsupported_constructs'][w.ver['label']] = {k: sorted(set(v))[:12] for k, v in us.items()}
    out = ['-- GENERATED by translate/xsd2lean.py from the bundled XSDs and the element classes of /repo (do not edit;',
           '-- regenerated on every check run).  One obligation per distinct (class table, complex type) pair reached by the',
           '-- lockstep walk from the root elements SICD / SIDD / CPHD / CRSD of every bundled schema version.',
           'import SarpyModel.Spec.XsdFmt', 'namespace Sarpy.Gen.XsdPairs', 'open Sarpy.Spec.XsdFmt', '']
    names_at = None
    for nm, d in sorted(defs.items()):
        out.append('-- %s ~ %s   [%s]' % (d['cls'], d['type'], ', '.join(d['versions'])))
        args = '%s (%s)' % (d['tt'], d['mm'])

        def stmt(fn):
            # classes whose from_node override has legacy guards carry the guard condition in the same obligation
            if d['guarded']:
                return '(%s %s && guardsOKB %s %s (%s))' % (fn, args, d['gi'], d['gu'], d['mm'])
            return '%s %s' % (fn, args)
        if d['status'] == 'conforming':
            out.append('theorem %s : %s = true := by decide' % (nm, stmt('conformsB')))
            conform_thms.append(nm)
        elif d['status'] == 'conforming_weak':
            out.append('-- %s' % '; '.join(d['reasons']))
            out.append('theorem %s : %s = true := by decide' % (nm, stmt('conformsWeakB')))
            weak_thms.append(nm)
        else:
            out.append('-- NOT conforming: %s' % '; '.join(d['reasons'])[:400])
            if all(k in known for k in d['keys']):
                out.append('theorem %s_nonconforming : %s = false := by decide' % (nm, stmt('conformsWeakB')))
                neg_thms.append(nm)
            else:
                out.append('theorem %s : %s = true := by decide' % (nm, stmt('conformsWeakB')))
                failing.append(nm)
        out.append('')
    closure_thms = []
    cl = ['-- GENERATED by translate/xsd2lean.py (do not edit; regenerated on every check run).',
          '-- One finite presentation per bundled schema version: the classes whose every pairing conforms are listed with their',
          '-- tables, all others are opaque; `closedB` is decided by the kernel and `c06_roundtrip_partial` is instantiated.',
          'import SarpyModel.Spec.XsdFmt', 'import SarpyModel.Props.C06', 'namespace Sarpy.Gen.XsdClosed', 'open Sarpy.Spec.XsdFmt', '']
    for w in walkers:
        classes, types, pairs, opaque_names = w.closure(intern)
        vn = 'ver_' + ident(w.ver['label'])
        cl.append('/-! ### %s (classes not listed are opaque: %d) -/' % (w.ver['label'], len(opaque_names)))
        cl.append('-- opaque here: ' + ', '.join(opaque_names)[:1500])
        cl.append('def %s_classes : List ClassData := [\n  %s]' % (vn, ',\n  '.join(classes[k] for k in sorted(classes))))
        cl.append('def %s_types : List TypeData := [\n  %s]' % (vn, ',\n  '.join(types[k] for k in sorted(types))))
        cl.append('def %s_pairs : List (ClassId × TypeId) := [%s]' % (vn, ', '.join('(%d, %d)' % p for p in pairs)))
        cl.append('theorem %s_closed : closedB %s_classes %s_types %s_pairs = true := by decide +kernel' % (vn, vn, vn, vn))
        cl.append('/-- every tree valid for a listed type of %s round-trips through the class paired with it -/' % w.ver['label'])
        cl.append('theorem %s_roundtrip (D : Deriver) (c : ClassId) (ty : TypeId) (hp : (c, ty) ∈ %s_pairs) (t : Xml) (hv : Valid (mkSchema %s_types) ty t)' % (vn, vn, vn))
        cl.append('    (hb : Bookkept (mkTabsD D %s_classes) c t) :' % vn)
        cl.append('    Valid (mkSchema %s_types) ty (serialize (mkTabsD D %s_classes) c (parse (mkTabsD D %s_classes) c t))' % (vn, vn, vn))
        cl.append('      ∧ Equiv (serialize (mkTabsD D %s_classes) c (parse (mkTabsD D %s_classes) c t)) t :=' % (vn, vn))
        cl.append('  Sarpy.Props.C06.c06_roundtrip_partial D _ _ _ %s_closed c ty hp t hv hb' % vn)
        cl.append('')
        closure_thms.append(vn + '_closed')
        summary['versions'][w.ver['label']]['closure'] = {'classes_listed': len(classes), 'types_listed': len(types), 'pairs': len(pairs), 'opaque_classes': len(opaque_names)}
    cl.append('end Sarpy.Gen.XsdClosed')
    closed_text = '\n'.join(cl) + '\n'
    out.append('/-- pairs outside the modelled fragment (version, class, type, why): covered by the document oracle only -/')
    out.append('def outsideFragment : List (String × String × String × String) := [')
    out.append(',\n'.join('  ' + s for s in listing))
    out.append(']')
    out.append('')
    out.append('end Sarpy.Gen.XsdPairs')
    names_path = os.path.splitext(out_path)[0] + '.names.json'
    text = '\n'.join(out) + '\n'
    changed = True
    if write:
        os.makedirs(os.path.dirname(out_path), exist_ok=True)
        if os.path.exists(out_path) and open(out_path).read() == text:
            changed = False
        else:
            with open(out_path, 'w') as f:
                f.write(text)
        with open(names_path, 'w') as f:
            json.dump(intern.names, f, indent=0)
        closed_path = os.path.join(os.path.dirname(out_path), 'XsdClosed.lean')
        if not (os.path.exists(closed_path) and open(closed_path).read() == closed_text):
            with open(closed_path, 'w') as f:
                f.write(closed_text)
    summary['codec_hook_pairs'] = sorted({'%s ~ %s [%s]: %s' % (r['class'], r['type'], r['version'], r['hook']) for r in summary['pairs'] if r.get('hook')})
    summary['inside_fragment'] = sum(1 for r in summary['pairs'] if r['status'] != 'outside_fragment')
    summary['outside_by_reason'] = {}
    for r in summary['pairs']:
        if r['status'] == 'outside_fragment':
            why = ('value codec (hook for C05X)' if r.get('hook') else
                   'SICD 0.x content the current class does not model' if any(x.startswith('SICD 0.x') for x in r['reasons']) else
                   'override shape not recognised' if any('does not recognise' in x for x in r['reasons']) else
                   'class paired with a simple type' if any('simple type' in x for x in r['reasons']) else 'other')
            summary['outside_by_reason'][why] = summary['outside_by_reason'].get(why, 0) + 1
    summary.update({
        'obligations_conforming': len(conform_thms), 'obligations_weak': len(weak_thms),
        'negation_witnesses': len(neg_thms), 'expected_to_fail': failing,
        'distinct_pairs': len(defs), 'outside_fragment': len(listing), 'closure_theorems': closure_thms, 'names': len(intern.names), 'changed': changed,
        'defs': defs,
    })
    return summary


if __name__ == '__main__':
    outp = os.path.join(HERE, '..', 'lean', 'SarpyModel', 'Gen', 'XsdPairs.lean')
    s = generate(outp)
    print(json.dumps({k: v for k, v in s.items() if k not in ('pairs', 'defs', 'unsupported_constructs')}, indent=1)[:3000])
    for rec in s['pairs']:
        if rec['status'] == 'nonconforming':
            print('NONCONFORMING', rec['version'], rec['class'], rec['type'], rec.get('keys'))
