"""gen_bounds.py - bounds of numeric metadata fields, regenerated on every run into lean/SarpyModel/Gen/Bounds.lean (properties C05 / C06).

 (a) the comparison kernel: `IntegerDescriptor._in_bounds` and `FloatDescriptor._in_bounds` (sarpy/io/xml/descriptors.py) translated by the typed
     translator (py2lean.Tr through gen_kernels2.TrX) after two pinned rewrites - the guard `if self.bounds is None: return True` (no bounds =
     both ends open) and the aliases `self.bounds[0]` -> lo, `self.bounds[1]` -> hi.  Anything else in the body fails closed.  The bridge
     `gen_in_bounds_eq_accepts_*` (generated text, shallow proof) says the kernel IS `Spec.Bounds.accepts`, the closed interval; an exclusive
     comparison makes it false.
 (b) the table of every descriptor with `bounds=` in the metadata classes (reflection): class, field, lower, upper, strict - as integers scaled
     by SCALE (every bound and facet of the tree is a multiple of 1/SCALE; anything else fails closed).
 (c) the XSD facets (min/maxInclusive, min/maxExclusive) of the schema elements / attributes those fields read, for every bundled schema version
     (lockstep walk of xsd2lean.py), paired with the descriptor interval: `descriptor_interval_contains_schema_interval` is decided by the
     kernel over the pairs where the descriptor is at least as wide as the schema; pairs where the descriptor is NARROWER are listed with a
     proved `= false` witness (that is the listed finding xml:value-rejected:descriptor-domain, kept as it is), and the strict fields whose
     schema element has no facet at all are listed by name.
"""
import ast
import inspect
import json
import os
import sys
import textwrap
from fractions import Fraction

HERE = os.path.dirname(os.path.abspath(__file__))
sys.path.insert(0, HERE)
import xsd2lean as X                                         # noqa: E402
from gen_kernels2 import TrX, Rewrite                        # noqa: E402
from py2lean import INT, OPT, BOOL, Unsupported, source_hash  # noqa: E402

SCALE = 1000000
GUARD = 'if self.bounds is None:\n    return True'
ALIASES = {'self.bounds[0]': 'lo', 'self.bounds[1]': 'hi'}


def scaled(v):
    if v is None:
        return None
    f = Fraction(str(v)) * SCALE
    if f.denominator != 1:
        raise Unsupported('bound %r is not a multiple of 1/%d' % (v, SCALE))
    return int(f)


def opt(v):
    return 'none' if v is None else ('some (%d)' % v if v < 0 else 'some %d' % v)


def kernel_source(fn):
    """`def frag(lo, hi, value): return <the comparisons>` from an _in_bounds method, or Unsupported"""
    tree = ast.parse(textwrap.dedent(inspect.getsource(fn))).body[0]
    body = [st for st in tree.body if not (isinstance(st, ast.Expr) and isinstance(st.value, ast.Constant))]
    aliases = dict(ALIASES)
    if len(body) == 3 and isinstance(body[1], ast.Assign) and ast.unparse(body[1].value) == 'self.bounds' and len(body[1].targets) == 1 and \
            isinstance(body[1].targets[0], ast.Tuple) and len(body[1].targets[0].elts) == 2 and all(isinstance(e, ast.Name) for e in body[1].targets[0].elts):
        # `lower, upper = self.bounds` in front of the comparisons: the two names are the ends
        aliases = {body[1].targets[0].elts[0].id: 'lo', body[1].targets[0].elts[1].id: 'hi'}
        body = [body[0], body[2]]
    if len(body) != 2 or ast.unparse(body[0]) != GUARD or not isinstance(body[1], ast.Return):
        raise Unsupported('%s: body is not `%s` followed by one return' % (fn.__qualname__, GUARD.replace('\n', ' ')))
    if [a.arg for a in tree.args.args] != ['self', 'value']:
        raise Unsupported('%s: unexpected parameters' % fn.__qualname__)
    rw = Rewrite(aliases, set(), set())
    ret = rw.visit(body[1])
    if set(aliases) - rw.used:
        raise Unsupported('%s: expected source constructs not found: %s' % (fn.__qualname__, sorted(set(aliases) - rw.used)))
    if any(isinstance(n, ast.Name) and n.id == 'self' for n in ast.walk(ret)):
        raise Unsupported('%s: reads more of self than self.bounds' % fn.__qualname__)
    return 'def frag(lo, hi, value):\n    ' + ast.unparse(ret) + '\n'


def descriptor_rows():
    from sarpy.io.xml import descriptors as D
    rows = []
    done = set()
    for pkg, d in X.all_classes().items():
        for _, cls in sorted(d.items()):
            qn = cls.__module__ + '.' + cls.__name__          # classes imported into sibling modules are listed once, under their own module
            if cls in done:
                continue
            done.add(cls)
            for f in cls._fields:
                de = inspect.getattr_static(cls, f, None)
                b = getattr(de, 'bounds', None)
                if b is not None and isinstance(de, (D.FloatDescriptor, D.IntegerDescriptor)):
                    rows.append(dict(cls=qn, field=f, kind='int' if isinstance(de, D.IntegerDescriptor) else 'float',
                                     lo=scaled(b[0]), hi=scaled(b[1]), strict=bool(de.strict), pycls=cls))
    return rows


def facet_pairs(rows):
    """[(version label, row, facet dict)] for every schema element / attribute read by a bounded field; facet = {} when the XSD declares none"""
    by_cls = {}
    for r in rows:
        by_cls.setdefault(r['pycls'], {})[r['field']] = r
    out = []
    intern = X.Interner()
    for v in X.schema_versions():
        w = X.Walker(v, intern).walk()
        for p in w.order:
            if p.pycls not in by_cls or not isinstance(p.ct, X.ComplexType) or not isinstance(p.cls_key, tuple) or p.cls_key[0] is not p.pycls:
                continue
            declared = {}
            w._collect_elems(p.ct.content, declared)
            attrs = {a.qname: a for a in p.ct.attrs}
            for r_, tag, ctag, k in X.effective_rows(p.pycls, p.cls_key[1], w.nsmap):
                row = by_cls[p.pycls].get(r_.field)
                if row is None:
                    continue
                st = None
                if r_.kind == 'attr':
                    a = attrs.get(tag) or next((a for q_, a in attrs.items() if X.local(q_) == X.local(tag)), None)
                    st = a.stype if a is not None else None
                else:
                    e = declared.get(tag)
                    if e is not None:
                        t = e.type
                        st = t if isinstance(t, X.SimpleType) else getattr(t, 'simple', None)
                if st is None:
                    continue
                fac = {}
                for key, attr, incl in (('lo', 'min_inc', True), ('lo', 'min_exc', False), ('hi', 'max_inc', True), ('hi', 'max_exc', False)):
                    val = getattr(st, attr, None)
                    if val is not None:
                        fac[key] = scaled(val)
                        fac[key + '_incl'] = incl
                # built-in integer types carry implicit facets (nonNegativeInteger >= 0, positiveInteger >= 1)
                if 'lo' not in fac and st.builtin in ('nonNegativeInteger', 'unsignedInt', 'unsignedLong', 'unsignedShort', 'unsignedByte'):
                    fac['lo'], fac['lo_incl'] = 0, True
                if 'lo' not in fac and st.builtin == 'positiveInteger':
                    fac['lo'], fac['lo_incl'] = scaled(1), True
                out.append((v['label'], row, fac))
    return out


def contains(row, fac):
    """python mirror of Spec.Bounds.containsB"""
    ok = True
    if row['lo'] is not None:
        ok = ok and fac.get('lo') is not None and row['lo'] <= fac['lo']
    if row['hi'] is not None:
        ok = ok and fac.get('hi') is not None and fac['hi'] <= row['hi']
    return ok


def generate(path):
    X.load_sarpy()
    from sarpy.io.xml import descriptors as D
    out = ['-- GENERATED by translate/gen_bounds.py from /repo (do not edit; regenerated on every check run)',
           'import SarpyModel.Spec.PyPrelude', 'import SarpyModel.Spec.Bounds', 'import SarpyModel.Props.C05Bounds', 'set_option linter.unusedVariables false',
           'namespace Sarpy.Gen.Bounds', 'open Sarpy.Spec.Bounds', '']
    failures, hashes, frags = [], {}, {}
    for name, fn in (('in_bounds_int', D.IntegerDescriptor._in_bounds), ('in_bounds_float', D.FloatDescriptor._in_bounds)):
        hashes[name] = source_hash(fn)
        try:
            src = kernel_source(fn)
            frags[name] = src
            out.append('-- %s, sarpy/io/xml/descriptors.py:  %s' % (fn.__qualname__, src.split('\n')[1].strip()))
            out.append(TrX(None, {'lo': OPT, 'hi': OPT, 'value': INT}, name, BOOL, src=src).translate())
            out.append('')
        except (Unsupported, SyntaxError) as e:
            failures.append((name, str(e)))
            out.append('-- UNSUPPORTED %s: %s\n' % (name, e))
    for name in ('in_bounds_int', 'in_bounds_float'):
        out.append('/-- the acceptance test of the descriptor, as the current source writes it, is the closed interval -/')
        out.append('theorem gen_%s_eq_accepts (lo hi : Option Int) (v : Int) : %s lo hi v = .ok (accepts lo hi v) := by' % (name, name))
        out.append('  cases lo <;> cases hi <;> simp [%s, accepts, Sarpy.getI, bind, Except.bind, pure, Except.pure] <;> split <;> simp_all <;> omega' % name)
        out.append('')
    rows = descriptor_rows()
    cls_ids, fld_ids = {}, {}

    def cid(q):
        return cls_ids.setdefault(q, len(cls_ids))

    def fid(f):
        return fld_ids.setdefault(f, len(fld_ids))
    out.append('/-- every descriptor with `bounds=` in the metadata classes: class id, field id, lower, upper (scaled by %d), strict -/' % SCALE)
    out.append('def descriptorTable : List DescrRow := [\n  %s]' % ',\n  '.join(
        '⟨%d, %d, %s, %s, %s⟩' % (cid(r['cls']), fid(r['field']), opt(r['lo']), opt(r['hi']), 'true' if r['strict'] else 'false') for r in rows))
    out.append('')
    pairs = facet_pairs(rows)
    with_fac = [(lbl, r, f) for lbl, r, f in pairs if f]
    seen, inside, narrower = set(), [], []
    for lbl, r, f in with_fac:
        key = (r['cls'], r['field'], tuple(sorted(f.items())))
        if key in seen:
            continue
        seen.add(key)
        (inside if contains(r, f) else narrower).append((lbl, r, f))

    def pair_txt(r, f):
        return '(⟨%d, %d, %s, %s, %s⟩, ⟨%s, %s, %s, %s⟩)' % (cid(r['cls']), fid(r['field']), opt(r['lo']), opt(r['hi']), 'true' if r['strict'] else 'false',
                                                           opt(f.get('lo')), 'true' if f.get('lo_incl', True) else 'false',
                                                           opt(f.get('hi')), 'true' if f.get('hi_incl', True) else 'false')
    for lbl, r, f in inside[:400]:
        pass
    out.append('/-- (descriptor row, schema facets) for every bounded field whose schema element / attribute declares facets and whose descriptor interval is at least as wide -/')
    out.append('def containedPairs : List (DescrRow × Facet) := [\n  %s]' % ',\n  '.join(pair_txt(r, f) for _, r, f in inside))
    out.append('/-- every schema-valid value of these fields is accepted by the descriptor -/')
    out.append('theorem descriptor_interval_contains_schema_interval : containedPairs.all (fun p => containsB p.1.lo p.1.hi p.2) = true := by decide +kernel')
    out.append('theorem descriptor_accepts_schema_valid (p : DescrRow × Facet) (hp : p ∈ containedPairs) (v : Int) (hv : schemaValid p.2 v = true) :')
    out.append('    accepts p.1.lo p.1.hi v = true :=')
    out.append('  Sarpy.Props.C05Bounds.contains_sound p.1.lo p.1.hi p.2 v (List.all_eq_true.mp descriptor_interval_contains_schema_interval p hp) hv')
    out.append('')
    out.append('/-- fields whose descriptor interval is NARROWER than the facets the schema declares (the library refuses or flags schema-valid values there:')
    out.append('    the listed finding xml:value-rejected:descriptor-domain for strict fields, an info log otherwise) -/')
    out.append('def narrowerPairs : List (DescrRow × Facet) := [\n  %s]' % ',\n  '.join(pair_txt(r, f) for _, r, f in narrower))
    out.append('theorem narrower_not_contained : narrowerPairs.all (fun p => !containsB p.1.lo p.1.hi p.2) = true := by decide +kernel')
    out.append('')
    no_facet = sorted({(r['cls'], r['field']) for lbl, r, f in pairs if not f})
    has_facet = {(r['cls'], r['field']) for lbl, r, f in with_fac}
    snf = {}
    for lbl, r, f in pairs:
        if not f and r['strict']:
            snf.setdefault((r['cls'], r['field']), set()).add(lbl)
    strict_no_facet = sorted((c, f, ' '.join(sorted(v))) for (c, f), v in snf.items())
    out.append('/-- STRICT bounded fields and the bundled schema versions whose element for them has NO facet (plain xs:double): there the library is stricter')
    out.append('    than the schema; a schema-valid value outside the descriptor interval is refused - the listed finding xml:value-rejected:descriptor-domain -/')
    out.append('def strictWithoutFacet : List (String × String × String) := [%s]' % ', '.join('("%s", "%s", "%s")' % x for x in strict_no_facet))
    out.append('')
    out.append('end Sarpy.Gen.Bounds')
    text = '\n'.join(out) + '\n'
    old = open(path).read() if os.path.exists(path) else None
    if old != text:
        os.makedirs(os.path.dirname(path), exist_ok=True)
        with open(path, 'w') as f:
            f.write(text)
    names = {'classes': {v: k for k, v in cls_ids.items()}, 'fields': {v: k for k, v in fld_ids.items()}}
    with open(os.path.splitext(path)[0] + '.json', 'w') as f:
        json.dump(names, f)
    return {'hashes': hashes, 'unsupported': failures, 'changed': old != text, 'fragments': frags, 'descriptors': len(rows),
            'strict': sorted({(r['cls'], r['field']) for r in rows if r['strict']}),
            'fields_with_facets': len(has_facet), 'contained_pairs': len(inside), 'narrower_pairs': len(narrower),
            'narrower': sorted({'%s.%s %s vs schema %s' % (r['cls'].split('.')[-1], r['field'], (r['lo'], r['hi']), f) for _, r, f in narrower})[:40],
            'bounded_fields_without_facet': len(set(no_facet) - has_facet), 'strict_without_facet': strict_no_facet,
            'theorems': ['gen_in_bounds_int_eq_accepts', 'gen_in_bounds_float_eq_accepts', 'descriptor_interval_contains_schema_interval',
                         'descriptor_accepts_schema_valid', 'narrower_not_contained']}


if __name__ == '__main__':
    r = generate(os.path.join(HERE, '..', 'lean', 'SarpyModel', 'Gen', 'Bounds.lean'))
    print(json.dumps({k: v for k, v in r.items() if k not in ('hashes',)}, indent=1)[:4000])
