"""Regenerate lean/SarpyModel/Gen/XmlTables.lean by reflection on sarpy's XML metadata element classes.

Mirrors what `Serializable.to_node` / `from_node` (sarpy/io/xml/base.py) read from a class:
`_fields`, `_required`, `_tag_override`, `_collections_tags`, `_set_as_attribute`, `_child_xml_ns_key`, and the descriptor
object of every field (kind of value, child class, array container class).

A *model class* is a pair (python class, namespace context): the namespace prefix a node inherits from its parent is
passed down the recursion in to_node/from_node, so the same python class produces differently qualified tags in different
contexts (SIDD: default / sicommon / sfa / ism).  The translator resolves that here and emits one table per pair with fully
qualified tags: `tag` is what to_node writes, `ptag` what from_node looks up (they differ when the two methods disagree
about the namespace of an attribute or of array children; `WF` then fails for that table).

A python class is *table-driven* when it does not override to_node/from_node/to_dict/from_dict/copy below Serializable and
every field is a plain descriptor of a supported kind.  Everything else (hand-written XML logic, property-backed fields,
float arrays) is listed under `outside` with the reason and enters the tables as an *opaque* class: the generic theorem treats
its XML body as a black box, the harness covers it by the oracle only.

Names are interned as Nat ids (tags, namespace keys, field names); the id -> string lists are emitted alongside."""
import ast
import importlib
import inspect
import os
import pkgutil
import textwrap

PACKAGES = [
    'sarpy.io.complex.sicd_elements',
    'sarpy.io.product.sidd1_elements',
    'sarpy.io.product.sidd2_elements',
    'sarpy.io.product.sidd3_elements',
    'sarpy.io.phase_history.cphd1_elements',
    'sarpy.io.phase_history.cphd0_3_elements',
    'sarpy.io.received.crsd1_elements',
    'sarpy.annotation.afrl_rde_elements',
]
ROOTS = [
    ('sarpy.io.complex.sicd_elements.SICD', 'SICDType'),
    ('sarpy.io.product.sidd1_elements.SIDD', 'SIDDType'),
    ('sarpy.io.product.sidd2_elements.SIDD', 'SIDDType'),
    ('sarpy.io.product.sidd3_elements.SIDD', 'SIDDType'),
    ('sarpy.io.phase_history.cphd1_elements.CPHD', 'CPHDType'),
    ('sarpy.io.phase_history.cphd0_3_elements.CPHD', 'CPHDType'),
    ('sarpy.io.received.crsd1_elements.CRSD', 'CRSDType'),
    ('sarpy.annotation.afrl_rde_elements.Research', 'ResearchType'),
]
CODEC_METHODS = ('to_node', 'from_node', 'to_dict', 'from_dict', 'copy')

# primitive kinds (ids used in the Lean tables)
PRIMS = ['str', 'enum', 'regex', 'bool', 'int', 'intenum', 'float', 'floatmod', 'datetime']
PRIM_ID = {n: i for i, n in enumerate(PRIMS)}

# synthetic classes (not python classes): a complex number <X><Real/><Imag/></X>, one <Parameter name="..">text</Parameter>
SYN_COMPLEX = '<complex>'
SYN_PARAM = '<parameter>'



# ------------------------------------------------------------------------------------------------ AST templates
# The hand-written methods of the classes that are brought inside the model are matched, statement by statement, against the
# templates below (docstrings, comments and annotations do not count).  Placeholders: string constants 'S_x' bind a string
# (a literal, or a class attribute such as cls._nvar0), attribute names F_x bind a field name, CLS is the class itself (any
# class of its MRO), ANY_x any name, K_x any literal, 'M_..' any message text.  A method that deviates from its template in
# any other way makes the class unclassifiable - reported as a broken obligation when the class is in the committed list of
# modelled classes (translate/xml_constructs_expected.json) - never silently opaque.

T = {}
T['poly1_to_node'] = """
def to_node(self, doc, tag, ns_key=None, parent=None, check_validity=False, strict=DEFAULT_STRICT, exclude=()):
    if parent is None:
        parent = doc.getroot()
    if ns_key is None:
        node = create_new_node(doc, tag, parent=parent)
    else:
        node = create_new_node(doc, '{}:{}'.format(ns_key, tag), parent=parent)
    if 'S_field' in self._child_xml_ns_key:
        ctag = 'S_ctagfmt'.format(self._child_xml_ns_key['S_field'])
    elif ns_key is not None:
        ctag = 'S_ctagfmt'.format(ns_key)
    else:
        ctag = 'S_coef'
    node.attrib['S_dim1'] = str(self.order1)
    fmt_func = self._get_formatter('S_fmt')
    for i, val in enumerate(self.Coefs):
        cnode = create_text_node(doc, ctag, fmt_func(val), parent=node)
        cnode.attrib['S_exp1'] = str(i)
    return node
"""
T['poly1_from_node'] = """
def from_node(cls, node, xml_ns, ns_key=None, kwargs=None):
    order1 = int(node.attrib['S_pdim1'])
    coefs = numpy.zeros((order1+1, ), dtype=numpy.float64)
    coef_key = cls._child_xml_ns_key.get('S_pfield', ns_key)
    coef_nodes = find_children(node, 'S_pcoef', xml_ns, coef_key)
    for cnode in coef_nodes:
        ind = int(cnode.attrib['S_pexp1'])
        val = float(get_node_value(cnode))
        coefs[ind] = val
    return cls(Coefs=coefs)
"""
T['poly2_to_node'] = """
def to_node(self, doc, tag, ns_key=None, parent=None, check_validity=False, strict=DEFAULT_STRICT, exclude=()):
    if parent is None:
        parent = doc.getroot()
    if ns_key is None:
        node = create_new_node(doc, tag, parent=parent)
    else:
        node = create_new_node(doc, '{}:{}'.format(ns_key, tag), parent=parent)
    if 'S_field' in self._child_xml_ns_key:
        ctag = 'S_ctagfmt'.format(self._child_xml_ns_key['S_field'])
    elif ns_key is not None:
        ctag = 'S_ctagfmt'.format(ns_key)
    else:
        ctag = 'S_coef'
    node.attrib['S_dim1'] = str(self.order1)
    node.attrib['S_dim2'] = str(self.order2)
    fmt_func = self._get_formatter('S_fmt')
    for i, val1 in enumerate(self._coefs):
        for j, val in enumerate(val1):
            cnode = create_text_node(doc, ctag, fmt_func(val), parent=node)
            cnode.attrib['S_exp1'] = str(i)
            cnode.attrib['S_exp2'] = str(j)
    return node
"""
T['poly2_from_node'] = """
def from_node(cls, node, xml_ns, ns_key=None, kwargs=None):
    order1 = int(node.attrib['S_pdim1'])
    order2 = int(node.attrib['S_pdim2'])
    coefs = numpy.zeros((order1+1, order2+1), dtype=numpy.float64)
    coef_key = cls._child_xml_ns_key.get('S_pfield', ns_key)
    coef_nodes = find_children(node, 'S_pcoef', xml_ns, coef_key)
    for cnode in coef_nodes:
        ind1 = int(cnode.attrib['S_pexp1'])
        ind2 = int(cnode.attrib['S_pexp2'])
        val = float(get_node_value(cnode))
        coefs[ind1, ind2] = val
    return cls(Coefs=coefs)
"""
T['custom_to_node'] = """
def to_node(self, doc, tag, ns_key=None, parent=None, check_validity=False, strict=DEFAULT_STRICT, exclude=()):
    if parent is None:
        parent = doc.getroot()
    if ns_key is None:
        node = create_new_node(doc, tag, parent=parent)
    else:
        node = create_new_node(doc, '{}:{}'.format(ns_key, tag), parent=parent)
    fc_tag = 'S_wrap' if ns_key is None else 'S_wrapfmt'
    filter_coefs_node = create_new_node(doc, fc_tag, parent=node)
    if 'S_field' in self._child_xml_ns_key:
        ctag = 'S_ctagfmt'.format(self._child_xml_ns_key['S_field'])
    elif ns_key is not None:
        ctag = 'S_ctagfmt'.format(ns_key)
    else:
        ctag = 'S_coef'
    filter_coefs_node.attrib['S_dim1'] = str(self._shape0())
    filter_coefs_node.attrib['S_dim2'] = str(self._shape1())
    fmt_func = self._get_formatter('S_fmt')
    for i, val1 in enumerate(self._coefs):
        for j, val in enumerate(val1):
            cnode = create_text_node(doc, ctag, fmt_func(val), parent=filter_coefs_node)
            cnode.attrib['S_exp1'] = str(i)
            cnode.attrib['S_exp2'] = str(j)
    return node
"""
T['custom_from_node'] = """
def from_node(cls, node, xml_ns, ns_key=None, kwargs=None):
    filter_coefs_node = find_first_child(node, 'S_pwrap', xml_ns, ns_key)
    num_x = int(filter_coefs_node.attrib['S_pdim1'])
    num_y = int(filter_coefs_node.attrib['S_pdim2'])
    coefs = numpy.zeros((num_x, num_y), dtype=numpy.float64)
    ckey = cls._child_xml_ns_key.get('S_pfield', ns_key)
    coef_nodes = find_children(filter_coefs_node, 'S_pcoef', xml_ns, ckey)
    for cnode in coef_nodes:
        ind1 = int(cnode.attrib['S_pexp1'])
        ind2 = int(cnode.attrib['S_pexp2'])
        val = float(get_node_value(cnode))
        coefs[ind1, ind2] = val
    return cls(Coefs=coefs)
"""
T['coefs_to_dict'] = """
def to_dict(self, check_validity=False, strict=DEFAULT_STRICT, exclude=()):
    out = OrderedDict()
    out['S_dname'] = self.Coefs.tolist()
    return out
"""
T['order_1d'] = "def order1(self):\n    return self.Coefs.size - 1\n"
T['order_2d_0'] = "def order1(self):\n    return self._coefs.shape[0] - 1\n"
T['order_2d_1'] = "def order2(self):\n    return self._coefs.shape[1] - 1\n"
T['shape_0'] = "def _shape0(self):\n    return self._coefs.shape[0]\n"
T['shape_1'] = "def _shape1(self):\n    return self._coefs.shape[1]\n"
# read-only properties listed in _fields
T['count_a'] = "def ANY_f(self):\n    if self.F_src is None:\n        return 0\n    return len(self.F_src)\n"
T['count_b'] = "def ANY_f(self):\n    if self.F_src is None:\n        return 0\n    else:\n        return len(self.F_src)\n"
T['const'] = "def ANY_f(self):\n    return K_value\n"
T['which'] = """
def ANY_f(self):
    for attribute in self._choice[0]['collection']:
        if getattr(self, attribute) is not None:
            return attribute
    return None
"""
# property-backed string fields: what is assigned (a str, or the text of the node from_node hands over) is what is held
T['strprop_get'] = "def ANY_f(self):\n    return self.F_priv\n"
T['strprop_set_nodata'] = """
def ANY_f(self, value):
    if value is None:
        self.F_priv = None
        return
    if isinstance(value, ElementTree.Element):
        value = get_node_value(value)
    if isinstance(value, str):
        self.F_priv = value
    elif isinstance(value, bytes):
        self.F_priv = value.decode('utf-8')
    elif isinstance(value, int):
        raise NotImplementedError
    elif isinstance(value, float):
        raise NotImplementedError
    else:
        raise TypeError('M_'.format(type(value)))
"""
T['strprop_set_localdt'] = """
def ANY_f(self, value):
    if value is None:
        self.F_priv = None
        return
    elif isinstance(value, datetime.datetime):
        value = value.isoformat('T')
    elif isinstance(value, ElementTree.Element):
        value = get_node_value(value)
    if isinstance(value, str):
        self.F_priv = value
    else:
        logger.error('M_'.format(type(value)))
        self.F_priv = None
"""
# wrapped parameter collection (ErrorStatisticsType.AdditionalParms)
T['wrapparams_from_node'] = """
def from_node(cls, node, xml_ns, ns_key=None, kwargs=None):
    if kwargs is None:
        kwargs = {}
    ap_key = cls._child_xml_ns_key.get('S_field', ns_key)
    ap_node = find_first_child(node, 'S_pwrap', xml_ns, ap_key)
    kwargs['S_field'] = None if ap_node is None else find_children(ap_node, 'S_pchild', xml_ns, ap_key)
    return super(CLS, cls).from_node(node, xml_ns, ns_key=ns_key, kwargs=kwargs)
"""
T['wrapparams_to_node'] = """
def to_node(self, doc, tag, ns_key=None, parent=None, check_validity=False, strict=DEFAULT_STRICT, exclude=()):
    node = super(CLS, self).to_node(
        doc, tag, ns_key=ns_key, parent=parent, check_validity=check_validity, strict=strict,
        exclude=exclude+('S_field', ))
    the_params = self.F_field
    if the_params is not None and 'S_field' not in exclude and the_params.get_collection():
        ap_key = self._child_xml_ns_key.get('S_field', getattr(self, '_xml_ns_key', ns_key))
        if ap_key == 'default':
            ap_key = None
        ap_node = create_new_node(
            doc, 'S_wrap' if ap_key is None else 'S_wrapfmt'.format(ap_key), parent=node)
        the_params.to_node(doc, ns_key=ap_key, parent=ap_node, check_validity=check_validity, strict=strict)
    return node
"""
# from_node overrides that only guard or dispatch legacy documents before the generic method
T['guard_legacy_child'] = """
def from_node(cls, node, xml_ns, ns_key=None, kwargs=None):
    coll_key = cls._child_xml_ns_key.get('S_legacy', ns_key)
    coll = find_first_child(node, 'S_legacy', xml_ns, coll_key)
    if coll is not None:
        return cls._from_node_0_5(node, xml_ns, ns_key)
    else:
        return super(CLS, cls).from_node(node, xml_ns, ns_key=ns_key, kwargs=kwargs)
"""
T['guard_radiometric'] = """
def from_node(cls, node, xml_ns, ns_key=None, kwargs=None):
    if kwargs is not None:
        kwargs = {}
    nkey = cls._child_xml_ns_key.get('S_legacy', ns_key)
    nlevel = find_first_child(node, 'S_legacy', xml_ns, nkey)
    if nlevel is not None:
        kwargs['S_target'] = ANY_type.from_node(nlevel, xml_ns, ns_key=ns_key, kwargs=kwargs)
    return super(CLS, cls).from_node(node, xml_ns, ns_key=ns_key, kwargs=kwargs)
"""
T['guard_wgttype'] = """
def from_node(cls, node, xml_ns, ns_key=None, kwargs=None):
    win_key = cls._child_xml_ns_key.get('S_own', ns_key)
    win_name = find_first_child(node, 'S_own', xml_ns, win_key)
    if win_name is None:
        if kwargs is None:
            kwargs = {}
        values = node.text.strip().split()
        kwargs['S_own'] = values[0]
        params = {}
        for entry in values[1:]:
            try:
                name, val = entry.split('=')
                params[name] = val
            except ValueError:
                continue
        kwargs['S_params'] = params
        return cls.from_dict(kwargs)
    else:
        return super(CLS, cls).from_node(node, xml_ns, ns_key=ns_key, kwargs=kwargs)
"""
T['guard_sidd_a'] = """
def from_node(cls, node, xml_ns, ns_key='default', kwargs=None):
    if ns_key is None:
        raise ValueError('M_')
    if ns_key not in xml_ns:
        raise ValueError('M_'.format(ns_key))
    valid_ns = validate_xml_ns(xml_ns, ns_key)
    if not xml_ns[ns_key].startswith('S_urn'):
        raise ValueError('M_'.format(xml_ns[ns_key]))
    if not valid_ns:
        logger.warning('M_')
    return super(CLS, cls).from_node(node, xml_ns, ns_key=ns_key, kwargs=kwargs)
"""
T['guard_sidd_b'] = """
def from_node(cls, node, xml_ns, ns_key='default', kwargs=None):
    if ns_key is None:
        raise ValueError('M_')
    if ns_key not in xml_ns:
        raise ValueError('M_'.format(ns_key))
    if xml_ns[ns_key].startswith('S_oldurn'):
        return ANY_old.from_node(node, xml_ns, ns_key=ns_key, kwargs=kwargs)
    valid_ns = validate_xml_ns(xml_ns, ns_key)
    if not xml_ns[ns_key].startswith('S_urn'):
        raise ValueError('M_'.format(xml_ns[ns_key]))
    if not valid_ns:
        logger.warning('M_')
    return super(CLS, cls).from_node(node, xml_ns, ns_key=ns_key, kwargs=kwargs)
"""
T['guard_sidd_c'] = """
def from_node(cls, node, xml_ns, ns_key='default', kwargs=None):
    if ns_key is None:
        raise ValueError('M_')
    if ns_key not in xml_ns:
        raise ValueError('M_'.format(ns_key))
    if xml_ns[ns_key].startswith('S_oldurn'):
        return ANY_old.from_node(node, xml_ns, ns_key=ns_key, kwargs=kwargs)
    elif xml_ns[ns_key].startswith('S_oldurn2'):
        return ANY_old2.from_node(node, xml_ns, ns_key=ns_key, kwargs=kwargs)
    valid_ns = validate_xml_ns(xml_ns, ns_key)
    if not xml_ns[ns_key].startswith('S_urn'):
        raise ValueError('M_'.format(xml_ns[ns_key]))
    if not valid_ns:
        logger.warning('M_')
    return super(CLS, cls).from_node(node, xml_ns, ns_key=ns_key, kwargs=kwargs)
"""
# copy() that only carries a private attribute over
T['copy_private'] = """
def copy(self):
    out = super(CLS, self).copy()
    out.F_priv = deepcopy(self.F_priv)
    return out
"""
_T_AST = {}


def _template(name):
    if name not in _T_AST:
        _T_AST[name] = _strip(ast.parse(textwrap.dedent(T[name])).body[0])
    return _T_AST[name]


def _strip(fn):
    """drop docstring, decorators, annotations"""
    fn.decorator_list = []
    fn.returns = None
    for a in fn.args.args + fn.args.kwonlyargs + ([fn.args.vararg] if fn.args.vararg else []) + ([fn.args.kwarg] if fn.args.kwarg else []):
        a.annotation = None
    if fn.body and isinstance(fn.body[0], ast.Expr) and isinstance(fn.body[0].value, ast.Constant) and isinstance(fn.body[0].value.value, str):
        fn.body = fn.body[1:] or [ast.Pass()]
    return fn


def fn_ast(f):
    """normalised AST of a function / classmethod / property getter, or None"""
    if isinstance(f, (classmethod, staticmethod)):
        f = f.__func__
    try:
        return _strip(ast.parse(textwrap.dedent(inspect.getsource(f))).body[0])
    except Exception:
        return None


_SKIP = ('lineno', 'col_offset', 'end_lineno', 'end_col_offset', 'ctx', 'type_comment', 'kind')


def unify(t, a, b, cls):
    """match actual AST `a` against template `t`; fills the bindings `b`; returns None or a description of the first mismatch"""
    if isinstance(t, ast.Constant) and isinstance(t.value, str) and t.value.startswith('M_'):
        return None if isinstance(a, (ast.Constant, ast.JoinedStr)) else 'message expected'
    if isinstance(t, ast.Constant) and isinstance(t.value, str) and t.value.startswith('S_'):
        if isinstance(a, ast.Constant) and isinstance(a.value, str):
            v = a.value
        elif isinstance(a, ast.JoinedStr):
            # f'{ns_key}:X' is the same text as '{}:X'.format(ns_key): only the literal part is bound
            v = ''.join(p.value if isinstance(p, ast.Constant) else '{}' for p in a.values)
        elif isinstance(a, ast.Attribute) and isinstance(a.value, ast.Name) and a.value.id in ('self', 'cls') and \
                isinstance(getattr(cls, a.attr, None), str):
            v = getattr(cls, a.attr)
        else:
            return f'string expected for {t.value}, got {ast.unparse(a)[:60]}'
        if b.setdefault(t.value, v) != v:
            return f'{t.value} bound to both {b[t.value]!r} and {v!r}'
        return None
    if isinstance(t, ast.Name) and t.id == 'CLS':
        ok = isinstance(a, ast.Name) and a.id in [k.__name__ for k in cls.__mro__]
        return None if ok else f'class name expected, got {ast.unparse(a)[:40]}'
    if isinstance(t, ast.Name) and t.id.startswith('ANY_'):
        if not isinstance(a, ast.Name):
            return f'name expected, got {ast.unparse(a)[:40]}'
        b.setdefault(t.id, a.id)
        return None
    if isinstance(t, ast.Name) and t.id.startswith('K_'):
        if not isinstance(a, ast.Constant):
            return f'literal expected, got {ast.unparse(a)[:40]}'
        b[t.id] = a.value
        return None
    if type(t) is not type(a):
        return f'{type(a).__name__} `{ast.unparse(a)[:60]}` where {type(t).__name__} `{ast.unparse(t)[:60]}` expected'
    if isinstance(t, ast.FunctionDef):
        if t.name.startswith('ANY_'):
            pass
        elif t.name != a.name:
            return f'function {a.name}'
        for fld in ('args', 'body'):
            r = unify(getattr(t, fld), getattr(a, fld), b, cls)
            if r:
                return r
        return None
    if isinstance(t, ast.Attribute) and t.attr.startswith('F_'):
        r = unify(t.value, a.value, b, cls)
        if r:
            return r
        if b.setdefault(t.attr, a.attr) != a.attr:
            return f'{t.attr} bound to both {b[t.attr]} and {a.attr}'
        return None
    if isinstance(t, list):
        if len(t) != len(a):
            return f'{len(a)} statements/items where {len(t)} expected near `{ast.unparse(a[0])[:60] if a else ""}`'
        for x, y in zip(t, a):
            r = unify(x, y, b, cls)
            if r:
                return r
        return None
    if isinstance(t, ast.AST):
        for fld in t._fields:
            if fld in _SKIP:
                continue
            x, y = getattr(t, fld, None), getattr(a, fld, None)
            if isinstance(x, (ast.AST, list)):
                if y is None:
                    return f'missing {fld}'
                r = unify(x, y, b, cls)
                if r:
                    return r
            elif x != y:
                return f'`{ast.unparse(a)[:70]}` where `{ast.unparse(t)[:70]}` expected'
        return None
    return None if t == a else f'{a!r} != {t!r}'


def match(cls, f, *names):
    """bindings of the first template among `names` that the function matches, else (None, reasons)"""
    a = fn_ast(f)
    if a is None:
        return None, None, 'source unavailable'
    why = []
    for nm in names:
        b = {}
        r = unify(_template(nm), a, b, cls)
        if r is None:
            return nm, b, None
        why.append(f'{nm}: {r}')
    return None, None, '; '.join(why)


def own_method(c, name):
    """(defining class, function) of a codec method defined below Serializable, else (None, None)"""
    from sarpy.io.xml.base import Serializable
    for k in c.__mro__:
        if k is Serializable:
            return None, None
        if name in k.__dict__:
            return k, k.__dict__[name]
    return None, None


def qual(c):
    return c if isinstance(c, str) else c.__module__ + '.' + c.__qualname__


def all_classes():
    """every Serializable subclass defined in the element packages: qualified name -> class"""
    from sarpy.io.xml.base import Serializable
    out = {}
    failed = []
    for p in PACKAGES:
        pk = importlib.import_module(p)
        for mi in pkgutil.iter_modules(pk.__path__):
            try:
                m = importlib.import_module(p + '.' + mi.name)
            except Exception as e:   # reported, never silently dropped
                failed.append((p + '.' + mi.name, f'{type(e).__name__}: {e}'))
                continue
            for n, c in inspect.getmembers(m, inspect.isclass):
                if issubclass(c, Serializable) and c is not Serializable and c.__module__.startswith('sarpy.'):
                    out[qual(c)] = c
    return out, failed


def root_classes():
    return [getattr(importlib.import_module(m), n) for m, n in ROOTS]


def overrides(c):
    """codec methods defined below Serializable in the MRO: ['to_node@Poly1DType', ...]"""
    from sarpy.io.xml.base import Serializable
    ov = []
    for k in c.__mro__:
        if k is Serializable:
            break
        ov += [f'{m}@{k.__name__}' for m in CODEC_METHODS if m in k.__dict__]
    return sorted(set(ov))


def init_extras(c):
    """statements of the class's own __init__ beyond the boilerplate (store namespace, assign each field, call super)"""
    f = c.__dict__.get('__init__')
    if f is None:
        return []
    try:
        fn = ast.parse(textwrap.dedent(inspect.getsource(f))).body[0]
    except Exception as e:
        return [f'<source unavailable: {type(e).__name__}>']
    fields = set(c._fields)

    def is_field_assign(st):
        if not (isinstance(st, ast.Assign) and len(st.targets) == 1):
            return False
        t, v = st.targets[0], st.value
        if isinstance(t, ast.Attribute) and isinstance(v, ast.Name):
            return t.attr == v.id and v.id in fields
        if isinstance(t, ast.Tuple) and isinstance(v, ast.Tuple) and len(t.elts) == len(v.elts):
            return all(isinstance(a, ast.Attribute) and isinstance(b, ast.Name) and a.attr == b.id and b.id in fields
                       for a, b in zip(t.elts, v.elts))
        return False

    def is_super_init(st):
        if not (isinstance(st, ast.Expr) and isinstance(st.value, ast.Call)):
            return False
        call = st.value
        fu = call.func
        if not (isinstance(fu, ast.Attribute) and fu.attr == '__init__' and isinstance(fu.value, ast.Call)
                and isinstance(fu.value.func, ast.Name) and fu.value.func.id == 'super'):
            return False
        if call.args:
            return False
        for kw in call.keywords:
            if kw.arg is None:
                continue
            if not (isinstance(kw.value, ast.Name) and kw.value.id == kw.arg):
                return False
        return True

    extras = []
    for st in fn.body:
        if isinstance(st, ast.Expr) and isinstance(st.value, ast.Constant):
            continue
        s = ' '.join(ast.unparse(st).split())
        if s in ("if '_xml_ns' in kwargs: self._xml_ns = kwargs['_xml_ns']",
                 "if '_xml_ns_key' in kwargs: self._xml_ns_key = kwargs['_xml_ns_key']"):
            continue
        if is_field_assign(st) or is_super_init(st):
            continue
        extras.append(s[:160])
    return extras


def norm_ns(k):
    return None if k in (None, 'default') else k


# ------------------------------------------------------------------------------------------------ rules read from base.py

def farr_index_base(child_tag):
    """`index` attribute of the first child of a float array, from the source of Serializable.to_node.serialize_array
    (`vnode.attrib['index'] = str(i) if ch_tag == 'Amplitude' else str(i + 1)`): evaluated at i = 0 and checked to be i + base"""
    from sarpy.io.xml.base import Serializable
    fn = ast.parse(textwrap.dedent(inspect.getsource(Serializable.to_node))).body[0]
    for n in ast.walk(fn):
        if isinstance(n, ast.FunctionDef) and n.name == 'serialize_array':
            for m in ast.walk(n):
                if isinstance(m, ast.Assign) and len(m.targets) == 1 and isinstance(m.targets[0], ast.Subscript) and \
                        ast.unparse(m.targets[0].value) == 'vnode.attrib' and isinstance(m.targets[0].slice, ast.Constant):
                    code = compile(ast.Expression(m.value), '<index>', 'eval')
                    vals = [eval(code, {'__builtins__': {}, 'str': str}, {'i': i, 'ch_tag': child_tag}) for i in (0, 1, 7)]
                    base = int(vals[0])
                    if [int(v) for v in vals] != [base, base + 1, base + 7] or any(v != str(int(v)) for v in vals):
                        raise ValueError(f'index rule is not i + const: {ast.unparse(m.value)}')
                    return m.targets[0].slice.value, base
    raise ValueError('serialize_array: no assignment to vnode.attrib[...]')


def array_index_rule(ext, child_type):
    """(field name the container overwrites, labels) or (None, []) — from the source of `_check_indices`.
    SerializableArray: `setattr(entry, self._index_var_name, i+1)` when `_set_index`; SerializableCPArray: four literal
    assignments per branch (`_index_as_string` iff the child class has `_CORNER_VALUES`)."""
    from sarpy.io.xml.base import SerializableArray
    owner = next(k for k in ext.__mro__ if '_check_indices' in k.__dict__)
    fn = ast.parse(textwrap.dedent(inspect.getsource(owner._check_indices))).body[0]
    if owner is SerializableArray:
        if not ext._set_index:
            return None, []
        calls = [n for n in ast.walk(fn) if isinstance(n, ast.Call) and isinstance(n.func, ast.Name) and n.func.id == 'setattr']
        if len(calls) != 1 or ast.unparse(calls[0].args[1]) != 'self._index_var_name':
            raise ValueError('unexpected _check_indices')
        code = compile(ast.Expression(calls[0].args[2]), '<idx>', 'eval')
        vals = [eval(code, {'__builtins__': {}}, {'i': i}) for i in (0, 1, 7)]
        if vals != [1, 2, 8]:
            raise ValueError(f'index rule is not i + 1: {ast.unparse(calls[0].args[2])}')
        return ext._index_var_name, []
    if owner.__name__ == 'SerializableCPArray':
        if not (len(fn.body) == 1 and isinstance(fn.body[0], ast.If) and ast.unparse(fn.body[0].test) == 'not self._index_as_string'):
            raise ValueError('unexpected SerializableCPArray._check_indices')

        def consts(stmts):
            out = []
            for k, st in enumerate(stmts):
                if not (isinstance(st, ast.Assign) and ast.unparse(st.targets[0]) == f'self._array[{k}].index' and isinstance(st.value, ast.Constant)):
                    raise ValueError('unexpected statement in SerializableCPArray._check_indices: ' + ast.unparse(st))
                out.append(st.value.value)
            return out
        ints, labels = consts(fn.body[0].body), consts(fn.body[0].orelse)
        if ints != [1, 2, 3, 4] or len(labels) != 4:
            raise ValueError(f'corner indices {ints} / {labels}')
        return 'index', (list(labels) if hasattr(child_type, '_CORNER_VALUES') else [])
    raise ValueError(f'{owner.__name__} overrides _check_indices')


def cp_array_bounds(ext):
    """length bounds in force when a SerializableCPArray is built: its __init__ calls SerializableArray.__init__ (which runs
    set_array) WITHOUT minimum_length / maximum_length and narrows the bounds only afterwards, so construction checks the
    defaults of SerializableArray; `_check_indices` then indexes entries 0..3 (IndexError below four entries) and touches no other"""
    from sarpy.io.xml.base import SerializableArray
    fn = ast.parse(textwrap.dedent(inspect.getsource(ext.__init__))).body[0]
    calls = [n for n in ast.walk(fn) if isinstance(n, ast.Call) and isinstance(n.func, ast.Attribute) and n.func.attr == '__init__'
             and isinstance(n.func.value, ast.Call) and getattr(n.func.value.func, 'id', None) == 'super']
    if len(calls) != 1:
        raise ValueError('SerializableCPArray.__init__: expected one super().__init__ call')
    kws = {k.arg for k in calls[0].keywords}
    if 'minimum_length' in kws or 'maximum_length' in kws:
        lo = hi = 4
    else:
        lo, hi = SerializableArray._default_minimum_length, SerializableArray._default_maximum_length
    return max(lo, 4), max(hi, 4), 4


def derived_prop(c, attr, d):
    """a read-only property listed in _fields: ('count', src field) | ('const', value) | ('which', fields) | (None, why)"""
    nm, b, why = match(c, d.fget, 'count_a', 'count_b', 'const', 'which')
    if nm in ('count_a', 'count_b'):
        src = b['F_src']
        if src not in c._fields:
            return None, f'{attr} counts {src}, which is not a field'
        return ('count', src), None
    if nm == 'const':
        v = b['K_value']
        if isinstance(v, bool) or not isinstance(v, (int, str)):
            return None, f'{attr} is the constant {v!r} (neither int nor str)'
        return ('const', v), None
    if nm == 'which':
        ch = getattr(c, '_choice', ())
        if not ch:
            return None, f'{attr}: no _choice group'
        return ('which', tuple(ch[0]['collection'])), None
    return None, f'read-only property {attr} matches no template ({why})'


def string_prop(c, attr, d):
    """a property with a setter that stores the string it is given (or the text of the node from_node hands over)"""
    n1, b1, w1 = match(c, d.fget, 'strprop_get')
    if n1 is None:
        return f'property {attr}: getter {w1}'
    n2, b2, w2 = match(c, d.fset, 'strprop_set_nodata', 'strprop_set_localdt')
    if n2 is None:
        return f'property {attr}: setter matches no template ({w2})'
    if b1['F_priv'] != b2['F_priv']:
        return f'property {attr}: getter reads {b1["F_priv"]}, setter writes {b2["F_priv"]}'
    return None


def field_rows(c, ctx, cinfo=None):
    """rows of python class c in namespace context ctx (None = default namespace), or (None, reason).

    Mirrors Serializable.to_node (base.py: the loop over self._fields) and from_node (the loop over cls._fields)."""
    from sarpy.io.xml import descriptors as D
    from sarpy.io.xml.base import SerializableArray
    try:
        from sarpy.io.complex.sicd_elements.base import SerializableCPArrayDescriptor
    except Exception:   # pragma: no cover
        SerializableCPArrayDescriptor = ()
    cinfo = cinfo or {}
    rows = []
    for pos, attr in enumerate(c._fields):
        d = inspect.getattr_static(c, attr, None)
        base_tag = c._tag_override.get(attr, attr)
        required = attr in c._required
        fmt = c._numeric_format.get(attr)
        if attr in c._set_as_attribute:
            # to_node: xml_ns_key = self._child_xml_ns_key.get(attribute, None); serialize_attribute drops None/'default'
            # from_node: xml_ns_key = cls._child_xml_ns_key.get(attribute, None)
            ser_ns = norm_ns(_attr_writer_ns(c, attr, ctx))
            par_ns = c._child_xml_ns_key.get(attr, None)   # a literal 'default' is looked up as {default-uri}tag
            if isinstance(d, property) and d.fset is None:
                dv, why = derived_prop(c, attr, d)
                if dv is None or dv[0] != 'const':
                    return None, why or f'attribute field {attr}: derived attribute of kind {dv[0]}'
                rows.append(dict(name=attr, kind='const', prim='int' if isinstance(dv[1], int) else 'str', value=dv[1], as_attr=True,
                                 tag=(ser_ns, base_tag), ptag=(par_ns, base_tag), required=required, fmt=fmt, desc='property'))
                continue
            p = prim_of(d)
            if p is None:
                return None, f'attribute field {attr} is not a primitive descriptor ({type(d).__name__})'
            rows.append(dict(name=attr, kind='attr', prim=p, tag=(ser_ns, base_tag), ptag=(par_ns, base_tag), required=required,
                             fmt=fmt, desc=type(d).__name__))
            continue
        # element fields: to_node uses _child_xml_ns_key[attr] if present else getattr(self, '_xml_ns_key', ns_key) ('default' -> None);
        # from_node uses _child_xml_ns_key[attr] if present else ns_key (find 'default:tag' == unprefixed)
        if attr in c._child_xml_ns_key:
            ns = c._child_xml_ns_key[attr]
            ns = None if ns is None else ns      # a literal 'default' would be written as a 'default:' prefix; none occurs
        else:
            ns = norm_ns(ctx)
        row = dict(name=attr, required=required, fmt=fmt, desc=type(d).__name__)
        p = prim_of(d)
        if p is not None:
            row.update(kind='prim', prim=p, tag=(ns, base_tag), ptag=(ns, base_tag))
        elif isinstance(d, property) and d.fset is None:
            dv, why = derived_prop(c, attr, d)
            if dv is None:
                return None, why
            if dv[0] == 'count':
                sd = inspect.getattr_static(c, dv[1], None)
                if not isinstance(sd, (D.SerializableListDescriptor, D.StringListDescriptor, D.IntegerListDescriptor, D.FloatListDescriptor)):
                    return None, f'{attr} counts {dv[1]}, which is not a list field ({type(sd).__name__})'
                row.update(kind='count', prim='int', src=c._fields.index(dv[1]), src_name=dv[1], tag=(ns, base_tag), ptag=(ns, base_tag))
            elif dv[0] == 'const':
                row.update(kind='const', prim='int' if isinstance(dv[1], int) else 'str', value=dv[1], as_attr=False,
                           tag=(ns, base_tag), ptag=(ns, base_tag))
            else:
                if any(a not in c._fields for a in dv[1]):
                    return None, f'{attr}: choice members {dv[1]} are not all fields'
                row.update(kind='which', prim='str', alts=[(c._fields.index(a), a) for a in dv[1]], tag=(ns, base_tag), ptag=(ns, base_tag))
        elif isinstance(d, property):
            why = string_prop(c, attr, d)
            if why is not None:
                return None, why
            row.update(kind='prim', prim='str', tag=(ns, base_tag), ptag=(ns, base_tag), via='property-backed string')
        elif isinstance(d, D.ComplexDescriptor):
            row.update(kind='child', cls=SYN_COMPLEX, cctx=ns, tag=(ns, base_tag), ptag=(ns, base_tag))
        elif isinstance(d, (D.SerializableDescriptor, D.UnitVectorDescriptor)):
            row.update(kind='child', cls=d.the_type, cctx=ns, tag=(ns, base_tag), ptag=(ns, base_tag),
                       canon='unit' if isinstance(d, D.UnitVectorDescriptor) else None)
        elif isinstance(d, D.SerializableListDescriptor):
            ct = c._collections_tags.get(attr, {}).get('child_tag')
            if ct is None or ct != d.child_tag:
                return None, f'list field {attr}: _collections_tags child_tag {ct!r} vs descriptor {d.child_tag!r}'
            row.update(kind='list', cls=d.child_type, cctx=ns, tag=(ns, ct), ptag=(ns, ct))
        elif isinstance(d, D.ParametersDescriptor):
            ct = c._collections_tags.get(attr, {}).get('child_tag')
            if ct is None or ct != d.child_tag:
                return None, f'parameters field {attr}: _collections_tags child_tag {ct!r} vs descriptor {d.child_tag!r}'
            w = cinfo.get('wrapped', {}).get(attr)
            if w is None:
                row.update(kind='params', cls=SYN_PARAM, cctx=ns, tag=(ns, ct), ptag=(ns, ct), wrap=None)
            else:
                # <W><CT name="..">..</CT>*</W>: written by the class's own to_node after the generic fields, read by its from_node
                if pos != len(c._fields) - 1:
                    return None, f'wrapped parameters field {attr} is not the last field'
                if w['wrap'] != base_tag or w['pwrap'] != base_tag or w['pchild'] != ct:
                    return None, f'wrapped parameters field {attr}: tags {w} vs {base_tag}/{ct}'
                row.update(kind='params', cls=SYN_PARAM, cctx=ns, tag=(ns, w['wrap']), ptag=(ns, w['pwrap']), wrap=((ns, ct), (ns, w['pchild'])))
        elif isinstance(d, (D.StringListDescriptor, D.IntegerListDescriptor, D.FloatListDescriptor)):
            ct = c._collections_tags.get(attr, {}).get('child_tag')
            if ct is None:
                return None, f'primitive list field {attr} without child_tag'
            p = {'StringListDescriptor': 'str', 'IntegerListDescriptor': 'int', 'FloatListDescriptor': 'float'}[type(d).__name__]
            row.update(kind='primlist', prim=p, tag=(ns, ct), ptag=(ns, ct))
        elif isinstance(d, D.FloatArrayDescriptor):
            tags = c._collections_tags.get(attr, {})
            ct = tags.get('child_tag')
            if ct is None or ct != d.child_tag or not tags.get('array', False):
                return None, f'float array field {attr}: inconsistent _collections_tags {tags!r}'
            try:
                idx_attr, base = farr_index_base(ct)
            except Exception as e:
                return None, f'float array field {attr}: {e}'
            # writer (to_node): size attribute = array_tag.get('size_attribute', 'size'), wrapper / children under xml_ns_key;
            # reader (FloatArrayDescriptor.__set__): self.size_attribute, children under _child_xml_ns_key[name] or the instance's key
            row.update(kind='floatarr', prim='float', tag=(ns, base_tag), ptag=(ns, base_tag), ctag=(None, ct),
                       pctag=(ns if attr in c._child_xml_ns_key else norm_ns(ctx), ct), size=tags.get('size_attribute', 'size'),
                       psize=d.size_attribute, idxattr=idx_attr, base=base, minlen=d.minimum_length, maxlen=d.maximum_length)
            # serialize_array: create_text_node(doc, ch_tag, ...) - the children are written WITHOUT a namespace prefix
            if row['pctag'][0] is not None:
                row['ctag'] = (None, ct)
            else:
                row['ctag'] = (None, ct)
        elif isinstance(d, D.SerializableArrayDescriptor) or (SerializableCPArrayDescriptor and isinstance(d, SerializableCPArrayDescriptor)):
            tags = c._collections_tags.get(attr, {})
            ct = tags.get('child_tag')
            if ct is None or ct != d.child_tag or not tags.get('array', False):
                return None, f'array field {attr}: inconsistent _collections_tags {tags!r}'
            if isinstance(d, D.SerializableArrayDescriptor):
                ext = d.array_extension
                # the container is built with _xml_ns_key = _child_xml_ns_key[name] if present else the parent's key
                # (descriptors.py SerializableArrayDescriptor.__set__), and parse_serializable_array looks the children up with that key
                par_child_ns = ns if attr in c._child_xml_ns_key else norm_ns(ctx)
            else:
                from sarpy.io.complex.sicd_elements.base import SerializableCPArray
                ext = SerializableCPArray
                par_child_ns = ns
            own = [m for k in ext.__mro__ if k is not SerializableArray and k is not object
                   for m in ('to_node', 'from_node', 'set_array', 'to_json_list', '_check_indices') if m in k.__dict__]
            size_attr = ext._size_var_name if ext._set_size else None
            if ext.__name__ == 'SerializableCPArray':
                size_attr = None   # its to_node writes no size attribute
                own = [m for m in own if m not in ('to_node', '_check_indices')]
            if own:
                return None, f'array field {attr}: container {ext.__name__} overrides {own}'
            try:
                idx_name, labels = array_index_rule(ext, d.child_type)
            except Exception as e:
                return None, f'array field {attr}: {e}'
            idxpos = None
            if idx_name is not None and idx_name in d.child_type._fields:
                idesc = inspect.getattr_static(d.child_type, idx_name, None)
                if prim_of(idesc) is None:
                    return None, f'array field {attr}: index field {idx_name} of {d.child_type.__name__} is not a primitive descriptor'
                idxpos = d.child_type._fields.index(idx_name)
                if labels and prim_of(idesc) not in ('enum', 'str'):
                    labels = []
            else:
                labels = []
            minlen, maxlen = int(getattr(d, 'minimum_length', 0)), int(getattr(d, 'maximum_length', 2 ** 32))
            idxlimit = 2 ** 32
            if ext.__name__ == 'SerializableCPArray':
                try:
                    minlen, maxlen, idxlimit = cp_array_bounds(ext)
                except Exception as e:
                    return None, f'array field {attr}: {e}'
            row.update(kind='array', cls=d.child_type, cctx=ns, tag=(ns, base_tag), ptag=(ns, base_tag),
                       ctag=(ns, ct), pctag=(par_child_ns, ct), size=size_attr, psize='size', container=ext.__name__,
                       minlen=minlen, maxlen=maxlen, idxlimit=idxlimit,
                       idxpos=idxpos, idxname=idx_name if idxpos is not None else None, labels=labels,
                       index_var=(ext._index_var_name if ext._set_index else None))
        else:
            return None, f'field {attr}: unsupported descriptor {type(d).__name__}'
        rows.append(row)
    return rows, None


RULE_FAILURES = []      # rules of the generic machinery that could not be read from the current source (each is a broken obligation)


def _attr_writer_ns(c, attr, ctx):
    """namespace key under which to_node writes an attribute field, read from the source of Serializable.to_node:
    `xml_ns_key = self._child_xml_ns_key.get(attribute, <default>)` in the `_set_as_attribute` branch (also accepted inline as
    an argument of serialize_attribute).  If the rule cannot be found the translator does not stop: it records the failure
    (a broken obligation) and goes on with the rule of the source the model was transcribed from (default None)."""
    from sarpy.io.xml.base import Serializable
    global _ATTR_DEFAULT
    try:
        _ATTR_DEFAULT
    except NameError:
        found = None
        try:
            fn = ast.parse(textwrap.dedent(inspect.getsource(Serializable.to_node))).body[0]
            for n in ast.walk(fn):
                if isinstance(n, ast.If) and ast.unparse(n.test) == 'attribute in self._set_as_attribute':
                    for m in ast.walk(ast.Module(body=n.body, type_ignores=[])):
                        if isinstance(m, ast.Call) and ast.unparse(m.func) == 'self._child_xml_ns_key.get' and len(m.args) == 2 \
                                and ast.unparse(m.args[0]) == 'attribute':
                            found = ast.unparse(m.args[1])
        except Exception as e:       # pragma: no cover
            found = f'<{type(e).__name__}: {e}>'
        if found not in ('None', 'ns_key'):
            RULE_FAILURES.append(f'Serializable.to_node: the namespace rule for attribute fields could not be read (found {found!r}); '
                                 'the tables keep the rule of the transcribed source (unqualified unless _child_xml_ns_key names a key)')
            found = 'None'
        _ATTR_DEFAULT = found
    return c._child_xml_ns_key.get(attr, None if _ATTR_DEFAULT == 'None' else ctx)


def prim_of(d):
    from sarpy.io.xml import descriptors as D
    if isinstance(d, D.StringEnumDescriptor):
        return 'enum'
    if isinstance(d, D.StringRegexDescriptor):
        return 'regex'
    if isinstance(d, D.StringDescriptor):
        return 'str'
    if isinstance(d, D.BooleanDescriptor):
        return 'bool'
    if isinstance(d, D.IntegerEnumDescriptor):
        return 'intenum'
    if isinstance(d, D.IntegerDescriptor):
        return 'int'
    if isinstance(d, D.FloatModularDescriptor):
        return 'floatmod'
    if isinstance(d, D.FloatDescriptor):
        return 'float'
    if isinstance(d, D.DateTimeDescriptor):
        return 'datetime'
    return None


def poly_spec(c):
    """the coefficient-array construct of class c: (spec dict, None) | (None, why not)"""
    k_to, f_to = own_method(c, 'to_node')
    k_from, f_from = own_method(c, 'from_node')
    k_td, f_td = own_method(c, 'to_dict')
    if f_to is None or f_from is None or f_td is None:
        return None, 'to_node / from_node / to_dict are not all overridden'
    for m in ('from_dict', 'copy'):
        if own_method(c, m)[1] is not None:
            return None, f'{m} is overridden too'
    n1, b1, w1 = match(c, f_to, 'poly1_to_node', 'poly2_to_node', 'custom_to_node')
    if n1 is None:
        return None, 'to_node matches no coefficient-array template: ' + w1
    kind = n1.split('_')[0]
    n2, b2, w2 = match(c, f_from, kind + '_from_node')
    if n2 is None:
        return None, f'from_node does not match the {kind} template: ' + w2
    n3, b3, w3 = match(c, f_td, 'coefs_to_dict')
    if n3 is None:
        return None, 'to_dict: ' + w3
    if b1['S_ctagfmt'] != '{}:' + b1['S_coef']:
        return None, f'coefficient tag {b1["S_coef"]!r} vs prefixed form {b1["S_ctagfmt"]!r}'
    if b3['S_dname'] != 'Coefs' or 'Coefs' not in c._fields or b1['S_field'] != 'Coefs' or b2['S_pfield'] != b1['S_field']:
        return None, f'field names: to_dict {b3["S_dname"]}, to_node {b1["S_field"]}, from_node {b2["S_pfield"]}'
    # dimension attributes: order = n - 1 (polynomials), num = n (filters)
    if kind == 'poly1':
        chk = [('order1', 'order_1d')]
        off = 1
    elif kind == 'poly2':
        chk = [('order1', 'order_2d_0'), ('order2', 'order_2d_1')]
        off = 1
    else:
        chk = [('_shape0', 'shape_0'), ('_shape1', 'shape_1')]
        off = 0
        if b1['S_wrapfmt'] != '{}:' + b1['S_wrap']:
            return None, f'wrapper tag {b1["S_wrap"]!r} vs prefixed form {b1["S_wrapfmt"]!r}'
    for nm, tn in chk:
        f = inspect.getattr_static(c, nm, None)
        f = f.fget if isinstance(f, property) else f
        if f is None or match(c, f, tn)[0] is None:
            return None, f'{nm} does not match its template ({match(c, f, tn)[2] if f else "missing"})'
    spec = dict(kind=kind, two=kind != 'poly1', coef=b1['S_coef'], pcoef=b2['S_pcoef'], dim1=b1['S_dim1'], pdim1=b2['S_pdim1'],
                dim2=b1.get('S_dim2', b1['S_dim1'] + '#2'), pdim2=b2.get('S_pdim2', b2['S_pdim1'] + '#2'),
                exp1=b1['S_exp1'], pexp1=b2['S_pexp1'], exp2=b1.get('S_exp2', b1['S_exp1'] + '#2'), pexp2=b2.get('S_pexp2', b2['S_pexp1'] + '#2'),
                off=off, wrap=b1.get('S_wrap'), pwrap=b2.get('S_pwrap'), fmt_key=b1['S_fmt'], dname='Coefs')
    return spec, None


def class_construct(c):
    """how class c enters the model: ('rows', cinfo) | ('poly', spec) | ('opaque', reason).
    cinfo: {'wrapped': {field: tags}, 'notes': [...]} - what the recognised overrides add to the generic field loop."""
    from sarpy.io.xml.base import Serializable
    ov = {}
    for m in CODEC_METHODS:
        k, f = own_method(c, m)
        if f is not None:
            ov[m] = (k, f)
    cinfo = {'wrapped': {}, 'notes': []}
    if 'Coefs' in c._fields and 'to_node' in ov:
        spec, why = poly_spec(c)
        if spec is None:
            return 'opaque', 'overrides ' + ', '.join(overrides(c)) + ' -- ' + why
        return 'poly', spec
    if 'to_dict' in ov or 'from_dict' in ov:
        return 'opaque', 'overrides ' + ', '.join(overrides(c))
    if 'copy' in ov:
        nm, b, why = match(c, ov['copy'][1], 'copy_private')
        if nm is None or not b['F_priv'].startswith('_') or b['F_priv'] in c._fields:
            return 'opaque', 'overrides ' + ', '.join(overrides(c)) + ' -- copy: ' + (why or 'copies a field')
        cinfo['notes'].append(f'copy() = generic copy + deepcopy of the private attribute {b["F_priv"]}')
    if 'to_node' in ov:
        n1, b1, w1 = match(c, ov['to_node'][1], 'wrapparams_to_node')
        n2, b2, w2 = match(c, ov['from_node'][1], 'wrapparams_from_node') if 'from_node' in ov else (None, None, 'from_node is not overridden')
        if n1 is None or n2 is None:
            return 'opaque', 'overrides ' + ', '.join(overrides(c)) + ' -- ' + (w1 if n1 is None else w2)
        if b1['S_field'] != b2['S_field'] or b1['F_field'] != b1['S_field'] or b1['S_wrapfmt'] != '{}:' + b1['S_wrap']:
            return 'opaque', 'overrides ' + ', '.join(overrides(c)) + f' -- wrapped parameters: inconsistent names {b1} {b2}'
        cinfo['wrapped'][b1['S_field']] = dict(wrap=b1['S_wrap'], pwrap=b2['S_pwrap'], pchild=b2['S_pchild'])
        cinfo['notes'].append(f'{b1["S_field"]}: parameters under the wrapper element <{b1["S_wrap"]}>')
    elif 'from_node' in ov:
        nm, b, why = match(c, ov['from_node'][1], 'guard_legacy_child', 'guard_radiometric', 'guard_wgttype', 'guard_sidd_a', 'guard_sidd_b', 'guard_sidd_c')
        if nm is None:
            return 'opaque', 'overrides ' + ', '.join(overrides(c)) + ' -- from_node matches no guard template: ' + why
        own_tags = {c._tag_override.get(a, a) for a in c._fields} | {t.get('child_tag') for t in c._collections_tags.values()}
        if nm in ('guard_legacy_child', 'guard_radiometric'):
            if b['S_legacy'] in own_tags:
                return 'opaque', f'from_node dispatches on <{b["S_legacy"]}>, which is one of the class\'s own tags'
            cinfo['notes'].append(f'from_node = generic unless the legacy child <{b["S_legacy"]}> (not a tag of this class) is present')
        elif nm == 'guard_wgttype':
            if b['S_own'] not in c._required:
                return 'opaque', f'from_node takes the legacy path when <{b["S_own"]}> is absent, and that field is not required'
            cinfo['notes'].append(f'from_node = generic whenever the required <{b["S_own"]}> is present (legacy text form otherwise)')
        else:
            cinfo['notes'].append(f'from_node = generic for documents in namespace {b["S_urn"]}* (others refused or dispatched)')
    rows, why = field_rows(c, None, cinfo)
    if rows is None:
        return 'opaque', why
    for k in ('__setattr__', '__getstate__', '__setstate__', '_get_formatter'):
        for b_ in c.__mro__:
            if b_ is Serializable:
                break
            if k in b_.__dict__:
                return 'opaque', f'overrides {k}@{b_.__name__}'
    return 'rows', cinfo


def construct_label(kind, info, rows=None):
    """stable description of how a class is modelled, with the parameters read from its hand-written code (what the committed
    expectation file records: a change of any of them is a change of the hand-written semantics)"""
    if kind == 'poly':
        sp = info
        head = {'poly1': 'coefficient array 1-D', 'poly2': 'coefficient array 2-D', 'custom': 'coefficient array 2-D under a wrapper'}[sp['kind']]
        return (f'{head}: <{sp["coef"]}> {sp["dim1"]}' + (f',{sp["dim2"]}' if sp['two'] else '') + f' = n-{sp["off"]}, {sp["exp1"]}'
                + (f',{sp["exp2"]}' if sp['two'] else '') + (f', inside <{sp["wrap"]}>' if sp['wrap'] else '') + f', dict key {sp["dname"]}')
    if kind == 'opaque':
        return 'opaque'
    extra = []
    for r in rows or []:
        k = r['kind']
        if k == 'floatarr':
            extra.append(f'floatarr {r["name"]}: <{r["ctag"][1]} {r["idxattr"]}=k+{r["base"]}> {r["size"]}')
        elif k == 'count':
            extra.append(f'count {r["name"]}=len({r["src_name"]})')
        elif k == 'const':
            extra.append(f'const {r["name"]}={r["value"]!r}' + (' (attribute)' if r['as_attr'] else ''))
        elif k == 'which':
            extra.append(f'which {r["name"]} of {"/".join(a for _, a in r["alts"])}')
        elif r.get('via'):
            extra.append(f'property-string {r["name"]}')
        elif k == 'params' and r.get('wrap'):
            extra.append(f'wrapped-params {r["name"]}: <{r["tag"][1]}><{r["wrap"][0][1]}>')
    for n in info.get('notes', []):
        if 'from_node' in n:
            extra.append('guarded: ' + n)
        elif 'copy()' in n:
            extra.append('copy+private')
    return 'rows' + (' + ' + ' | '.join(extra) if extra else '')


def construct_family(label):
    """coarse family of a label (for counting)"""
    if label.startswith('coefficient array'):
        return label.split(':')[0]
    if label in ('rows', 'opaque'):
        return label
    fams = sorted({e.strip().split(' ')[0].rstrip(':') for e in label[len('rows + '):].split(' | ')})
    return 'rows + ' + ', '.join(fams)


class Interner:
    def __init__(self, first=()):
        self.ids = {}
        self.names = []
        for f in first:
            self.get(f)

    def get(self, s):
        if s not in self.ids:
            self.ids[s] = len(self.names)
            self.names.append(s)
        return self.ids[s]


EXPECTED = os.path.join(os.path.dirname(os.path.abspath(__file__)), 'xml_constructs_expected.json')
PINS = os.path.join(os.path.dirname(os.path.abspath(__file__)), 'xml_base_pins.json')

# the functions of sarpy/io/xml that Spec.XmlFmt transcribes by hand (no per-class data: they are the generic machinery).
# Their normalised AST (docstrings, comments, annotations dropped) is pinned; a change is a broken obligation: the transcription
# has to be looked at again, and the harness searches for a failing input meanwhile.
BASE_FUNCTIONS = [
    ('sarpy.io.xml.base', 'get_node_value'), ('sarpy.io.xml.base', 'create_new_node'), ('sarpy.io.xml.base', 'create_text_node'),
    ('sarpy.io.xml.base', 'find_first_child'), ('sarpy.io.xml.base', 'find_children'),
    ('sarpy.io.xml.base', 'parse_serializable'), ('sarpy.io.xml.base', 'parse_serializable_array'),
    ('sarpy.io.xml.base', 'parse_serializable_list'), ('sarpy.io.xml.base', 'parse_parameters_collection'),
    ('sarpy.io.xml.base', 'parse_complex'),
    ('sarpy.io.xml.base', 'Serializable.__init__'), ('sarpy.io.xml.base', 'Serializable.from_node'),
    ('sarpy.io.xml.base', 'Serializable.to_node'), ('sarpy.io.xml.base', 'Serializable.from_dict'),
    ('sarpy.io.xml.base', 'Serializable.to_dict'), ('sarpy.io.xml.base', 'Serializable.copy'),
    ('sarpy.io.xml.base', 'SerializableArray.__init__'), ('sarpy.io.xml.base', 'SerializableArray.set_array'),
    ('sarpy.io.xml.base', 'SerializableArray._check_indices'), ('sarpy.io.xml.base', 'SerializableArray.to_node'),
    ('sarpy.io.xml.base', 'SerializableArray.to_json_list'),
    ('sarpy.io.xml.base', 'ParametersCollection.set_collection'), ('sarpy.io.xml.base', 'ParametersCollection.to_node'),
    ('sarpy.io.xml.base', 'ParametersCollection.to_dict'),
    ('sarpy.io.xml.descriptors', 'FloatArrayDescriptor.__set__'), ('sarpy.io.xml.descriptors', 'SerializableArrayDescriptor.__set__'),
    ('sarpy.io.xml.descriptors', 'SerializableListDescriptor.__set__'), ('sarpy.io.xml.descriptors', 'ParametersDescriptor.__set__'),
    ('sarpy.io.xml.descriptors', 'SerializableDescriptor.__set__'),
    ('sarpy.io.complex.sicd_elements.base', 'SerializableCPArrayDescriptor.__set__'),
    ('sarpy.io.complex.sicd_elements.base', 'SerializableCPArray.__init__'),
    ('sarpy.io.complex.sicd_elements.base', 'SerializableCPArray._check_indices'),
    ('sarpy.io.complex.sicd_elements.base', 'SerializableCPArray.to_node'),
]


def base_pins():
    """{module:qualname -> sha256 of the normalised AST} of the transcribed functions"""
    import hashlib
    out = {}
    for mod, qn_ in BASE_FUNCTIONS:
        try:
            obj = importlib.import_module(mod)
            for part in qn_.split('.'):
                obj = inspect.getattr_static(obj, part)
            a = fn_ast(obj)
            out[f'{mod}:{qn_}'] = 'unavailable' if a is None else hashlib.sha256(ast.dump(a).encode()).hexdigest()[:20]
        except Exception as e:
            out[f'{mod}:{qn_}'] = f'missing ({type(e).__name__})'
    return out



def build():
    """reflect everything; returns the python-side description used both for the Lean file and by the harness"""
    classes, failed = all_classes()
    roots = root_classes()
    for r in roots:
        classes.setdefault(qual(r), r)
    outside = {}
    construct = {}

    untranslated = {}

    def decide(q, c):
        try:
            kind, inf = class_construct(c)
        except Exception as e:      # a translator that cannot read the source fails closed: the class becomes a black box, listed
            import traceback
            kind, inf = 'opaque', f'translator failed on this class ({type(e).__name__}: {str(e)[:200]})'
            untranslated[q] = inf + ' @ ' + traceback.format_exc().strip().splitlines()[-3].strip()[:160]
        construct[q] = (kind, inf)
        if kind == 'opaque':
            outside[q] = inf
    for q, c in sorted(classes.items()):
        decide(q, c)
    # model classes: (qualified python class | synthetic, ctx); closure from (every class, None)
    ids = {}
    order = []
    work = []

    def cid(c, ctx):
        key = (qual(c), ctx)
        if key not in ids:
            ids[key] = len(order)
            order.append(key)
            work.append((c, ctx))
        return ids[key]

    for r in roots:
        cid(r, None)
    for q, c in sorted(classes.items()):
        cid(c, None)
    tables = {}
    while work:
        c, ctx = work.pop()
        key = (qual(c), ctx)
        if c == SYN_COMPLEX:
            tables[key] = [dict(name='Real', kind='prim', prim='float', tag=(ctx, 'Real'), ptag=(ctx, 'Real'), required=True, fmt=None, desc='-'),
                           dict(name='Imag', kind='prim', prim='float', tag=(ctx, 'Imag'), ptag=(ctx, 'Imag'), required=True, fmt=None, desc='-')]
            continue
        if c == SYN_PARAM:
            # ParametersCollection.to_node: node.attrib['name'] = name (never prefixed); parse_parameters_collection: entry.attrib['name']
            tables[key] = [dict(name='name', kind='attr', prim='str', tag=(None, 'name'), ptag=(None, 'name'), required=True, fmt=None, desc='-'),
                           dict(name='value', kind='text', prim='str', tag=(None, '#text'), ptag=(None, '#text'), required=True, fmt=None, desc='-')]
            continue
        q = qual(c)
        if q not in classes:
            classes[q] = c          # reachable class defined outside the packages
            decide(q, c)
        kind, inf = construct[q]
        if kind == 'opaque':
            tables[key] = None      # opaque
            # children of outside classes that the descriptors still expose are reachable too
            for attr in c._fields:
                d = inspect.getattr_static(c, attr, None)
                for t in (getattr(d, 'the_type', None), getattr(d, 'child_type', None)):
                    if inspect.isclass(t):
                        cid(t, None)
            continue
        if kind == 'poly':
            # to_node: ctag under _child_xml_ns_key['Coefs'] if present else the node's own key; from_node: the same rule;
            # the wrapper of the filter classes is written / looked up under the node's own key
            cns = c._child_xml_ns_key.get('Coefs', norm_ns(ctx))
            sp = dict(inf)
            sp.update(coef_q=(cns, inf['coef']), pcoef_q=(cns, inf['pcoef']),
                      wrap_q=None if inf['wrap'] is None else ((norm_ns(ctx), inf['wrap']), (norm_ns(ctx), inf['pwrap'])),
                      fmt=c._numeric_format.get(inf['fmt_key']))
            tables[key] = {'poly': sp}
            continue
        try:
            rows, why = field_rows(c, ctx, inf)
        except Exception as e:
            rows, why = None, f'translator failed ({type(e).__name__}: {str(e)[:200]})'
        if rows is None:
            # readable in the default context but not in this one: black box here, reported
            untranslated[f'{q} @{ctx}'] = str(why)
            tables[key] = None
            continue
        for r in rows:
            if 'cls' in r:
                r['cid'] = cid(r['cls'], r['cctx'])
            if r['kind'] == 'array' and r['idxpos'] is not None:
                cq = qual(r['cls'])
                if cq not in construct:
                    classes.setdefault(cq, r['cls'])
                    decide(cq, r['cls'])
                if construct[cq][0] != 'rows':
                    # the entries are black boxes (or coefficient arrays): the index their container assigns is not visible to the model
                    r['idxpos'], r['labels'], r['idxname'] = None, [], None
        tables[key] = rows
    # reachability from the roots (python classes, any context)
    reach = set()
    stack = [ids[(qual(r), None)] for r in roots]
    while stack:
        i = stack.pop()
        if i in reach:
            continue
        reach.add(i)
        rows = tables[order[i]]
        if isinstance(rows, list):
            stack += [r['cid'] for r in rows if 'cid' in r]
        elif rows is None and not order[i][0].startswith('<'):
            c = classes[order[i][0]]
            for attr in c._fields:
                d = inspect.getattr_static(c, attr, None)
                for t in (getattr(d, 'the_type', None), getattr(d, 'child_type', None)):
                    if inspect.isclass(t) and (qual(t), None) in ids:
                        stack.append(ids[(qual(t), None)])
    reach_py = sorted({order[i][0] for i in reach if not order[i][0].startswith('<')})
    extras = {q: e for q, c in sorted(classes.items()) for e in [init_extras(c)] if e}
    labels = {}
    for q in sorted(classes):
        kind, inf = construct[q]
        labels[q] = construct_label(kind, inf, tables.get((q, None)) if kind == 'rows' else None)
    # classes that were modelled when the expectation file was written and no longer are (or are modelled differently)
    regress = []
    expected = {}
    if os.path.exists(EXPECTED):
        import json
        expected = json.load(open(EXPECTED))
        for q, lab in sorted(expected.items()):
            now = labels.get(q)
            if now != lab:
                regress.append(dict(cls=q, expected=lab, now=now or 'class no longer exists', why=outside.get(q, '')))
    pins = base_pins()
    pin_changes = []
    if os.path.exists(PINS):
        import json
        for k, v in sorted(json.load(open(PINS)).items()):
            if pins.get(k) != v:
                pin_changes.append(k)
    return dict(classes=classes, roots=[qual(r) for r in roots], outside=outside, order=order, ids=ids, tables=tables,
                reachable=reach_py, import_failures=failed, init_extras=extras, construct=construct, labels=labels,
                regressions=regress, expected=expected, pins=pins, pin_changes=pin_changes, untranslated=untranslated,
                rule_failures=list(RULE_FAILURES))


def row_mismatch(r):
    return r['tag'] != r['ptag'] or (r['kind'] in ('array', 'floatarr') and r['ctag'] != r['pctag']) or \
        (r['kind'] == 'floatarr' and r['size'] != r['psize']) or (r['kind'] == 'array' and r['size'] not in (None, r['psize'])) or \
        (r['kind'] == 'params' and r.get('wrap') and r['wrap'][0] != r['wrap'][1])


def const_text(r):
    """the text a derived constant is written as (serialize_plain / serialize_attribute)"""
    v = r['value']
    return v if isinstance(v, str) else str(v)


def lean_text(info):
    tags = Interner()
    nss = Interner([None])
    names = Interner()
    consts = Interner(['float 0.0'])

    def qn(t):
        return f'({nss.get(t[0])}, {tags.get(t[1])})'

    ents = []
    mism = []
    for i, key in enumerate(info['order']):
        rows = info['tables'][key]
        if rows is None:
            ents.append(f'  /- {i}: {key[0]} @{key[1]} -/ .custom')
            continue
        if isinstance(rows, dict):
            sp = rows['poly']
            a0 = lambda s: f'(0, {tags.get(s)})'
            wr = 'none' if sp['wrap_q'] is None else f'(some ({qn(sp["wrap_q"][0])}, {qn(sp["wrap_q"][1])}))'
            ents.append(f'  /- {i}: {key[0]} @{key[1]} -/ .poly {{ two := {"true" if sp["two"] else "false"}, coefTag := {qn(sp["coef_q"])}, '
                        f'pCoefTag := {qn(sp["pcoef_q"])}, dim1 := {a0(sp["dim1"])}, pDim1 := {a0(sp["pdim1"])}, dim2 := {a0(sp["dim2"])}, '
                        f'pDim2 := {a0(sp["pdim2"])}, exp1 := {a0(sp["exp1"])}, pExp1 := {a0(sp["pexp1"])}, exp2 := {a0(sp["exp2"])}, '
                        f'pExp2 := {a0(sp["pexp2"])}, dimOff := {sp["off"]}, wrapper := {wr}, prim := {PRIM_ID["float"]}, '
                        f'dname := {names.get(sp["dname"])}, fill := {consts.get("float 0.0")} }}')
            continue
        rs = []
        for r in rows:
            k = r['kind']
            if k == 'prim':
                kk = f'.prim {PRIM_ID[r["prim"]]}'
            elif k == 'attr':
                kk = f'.attr {PRIM_ID[r["prim"]]}'
            elif k == 'text':
                kk = f'.text {PRIM_ID[r["prim"]]}'
            elif k == 'child':
                kk = f'.child {r["cid"]}'
            elif k == 'list':
                kk = f'.list {r["cid"]}'
            elif k == 'primlist':
                kk = f'.primList {PRIM_ID[r["prim"]]}'
            elif k == 'array':
                sz = 'none' if r['size'] is None else f'(some (0, {tags.get(r["size"])}))'
                ip = 'none' if r['idxpos'] is None else f'(some {r["idxpos"]})'
                lb = '[' + ', '.join(str(consts.get('str ' + l)) for l in r['labels']) + ']'
                kk = (f'.array {r["cid"]} {{ childTag := {qn(r["ctag"])}, pChildTag := {qn(r["pctag"])}, sizeAttr := {sz}, '
                      f'pSizeAttr := (0, {tags.get(r["psize"])}), minLen := {r["minlen"]}, maxLen := {r["maxlen"]}, idxPos := {ip}, idxLabels := {lb}, idxLimit := {r["idxlimit"]} }}')
            elif k == 'floatarr':
                kk = (f'.floatArr {{ prim := {PRIM_ID[r["prim"]]}, childTag := {qn(r["ctag"])}, pChildTag := {qn(r["pctag"])}, '
                      f'sizeAttr := (0, {tags.get(r["size"])}), pSizeAttr := (0, {tags.get(r["psize"])}), idxAttr := (0, {tags.get(r["idxattr"])}), base := {r["base"]} }}')
            elif k == 'params':
                w = 'none' if not r.get('wrap') else f'(some ({qn(r["wrap"][0])}, {qn(r["wrap"][1])}))'
                kk = f'.params {r["cid"]} {w}'
            elif k == 'count':
                kk = f'.count {PRIM_ID[r["prim"]]} {r["src"]}'
            elif k == 'const':
                kk = f'.const {PRIM_ID[r["prim"]]} {consts.get(r["prim"] + " " + const_text(r))} {"true" if r["as_attr"] else "false"}'
            elif k == 'which':
                kk = f'.which {PRIM_ID[r["prim"]]} [' + ', '.join(f'({i_}, {consts.get("str " + a)})' for i_, a in r['alts']) + ']'
            else:
                raise ValueError(k)
            if row_mismatch(r):
                mism.append((i, key, r['name']))
            rs.append(f'⟨{names.get(r["name"])}, {qn(r["tag"])}, {qn(r["ptag"])}, {kk}, {"true" if r["required"] else "false"}⟩')
        ents.append(f'  /- {i}: {key[0]} @{key[1]} -/ .rows [' + ', '.join(rs) + ']')
    lines = ['-- GENERATED by translate/tables_xml.py from /repo (do not edit; regenerated on every check run)',
             'import SarpyModel.Spec.XmlFmt', 'namespace Sarpy.Gen.Xml', 'open Sarpy.Spec.XmlFmt', '',
             f'-- {len(info["order"])} model classes (python class x namespace context), '
             f'{sum(1 for k in info["order"] if info["tables"][k] is None)} opaque',
             'def tables : Tabs := [', ',\n'.join(ents), ']', '']

    def strlist(nm, xs):
        return f'def {nm} : List String := [' + ', '.join('"%s"' % ('' if x is None else x) for x in xs) + ']'
    lines.append(strlist('tagNames', tags.names))
    lines.append(strlist('nsNames', nss.names))
    lines.append(strlist('fieldNames', names.names))
    lines.append(strlist('primNames', PRIMS))
    lines.append(strlist('constNames', consts.names))
    lines.append('def classNames : List String := [' + ', '.join('"%s@%s"' % (k[0].replace('sarpy.', ''), k[1] or '') for k in info['order']) + ']')
    lines.append('def outsideClasses : List String := [' + ', '.join('"%s"' % q.replace('sarpy.', '') for q in sorted(info['outside'])) + ']')
    lines.append('')
    lines.append('/-- every table is well formed: distinct element tags, distinct attribute names, at most one text row, writer and reader')
    lines.append('    agree on every qualified tag, attribute name, child tag and size attribute (rows, arrays, float arrays, parameter')
    lines.append('    wrappers, coefficient arrays), the two exponent attributes of a 2-D coefficient array differ, child classes exist.')
    lines.append('    A change of a class table or of a hand-written method that breaks this breaks the build. -/')
    lines.append('theorem tables_wf : WF tables := by decide +kernel')
    lines.append('')
    lines.append('/-- field names are distinct per class (what the dict form and copy rely on) -/')
    lines.append('theorem tables_dwf : DWF tables := by decide +kernel')
    lines.append('')
    # the same python class in several namespace contexts: each pair is decided to be a variant (same fields, kinds, bounds; tags differ)
    byq = {}
    for i, key in enumerate(info['order']):
        byq.setdefault(key[0], []).append(i)
    pairs = [(v[0], j) for q, v in sorted(byq.items()) if len(v) > 1 for j in v[1:]]
    lines.append('/-- (class in the default context, the same python class in another namespace context) -/')
    lines.append('def variantPairs : List (Nat × Nat) := [' + ', '.join(f'({a}, {b})' for a, b in pairs) + ']')
    lines.append('')
    lines.append('/-- every python class that occurs in several namespace contexts has the same fields of the same kinds, with the same')
    lines.append('    bounds and index rules, in each of them (only tags differ): the hypothesis of `moved_roundtrip` for the current source -/')
    lines.append('theorem variants_ok : variantPairs.all (fun p => variantN 48 tables p.1 p.2) = true := by decide +kernel')
    lines.append('')
    lines.append('end Sarpy.Gen.Xml')
    return '\n'.join(lines) + '\n', dict(tags=tags, nss=nss, names=names, consts=consts), mism


def generate(path):
    info = build()
    text, interned, mism = lean_text(info)
    old = open(path).read() if os.path.exists(path) else None
    if old != text:
        os.makedirs(os.path.dirname(path), exist_ok=True)
        with open(path, 'w') as f:
            f.write(text)
    info['changed'] = old != text
    info['interned'] = interned
    info['mismatch_rows'] = mism
    return info


if __name__ == '__main__':
    import logging
    import sys
    logging.disable(logging.CRITICAL)
    here = os.path.dirname(os.path.abspath(__file__))
    r = generate(os.path.join(here, '..', 'lean', 'SarpyModel', 'Gen', 'XmlTables.lean'))
    if '--write-expected' in sys.argv:
        import json
        with open(EXPECTED, 'w') as f:
            json.dump({q: l for q, l in sorted(r['labels'].items()) if l != 'opaque'}, f, indent=0, sort_keys=True)
        print('wrote', EXPECTED)
        with open(PINS, 'w') as f:
            json.dump(r['pins'], f, indent=0, sort_keys=True)
        print('wrote', PINS)
    py = sorted(r['classes'])
    print('python classes', len(py), 'outside', len(r['outside']), 'model classes', len(r['order']),
          'opaque', sum(1 for k in r['order'] if r['tables'][k] is None), 'reachable', len(r['reachable']), 'changed', r['changed'])
    print('import failures', r['import_failures'])
    print('mismatch rows', r['mismatch_rows'])
    print('regressions', r['regressions'])
    print('pin changes', r['pin_changes'])
    print('untranslated', r['untranslated'], 'rule failures', r['rule_failures'])
    for q, w in sorted(r['outside'].items()):
        print('  outside', q, '--', w)
    import collections
    print(collections.Counter(construct_family(l) for l in r['labels'].values()))
    print('init extras', len(r['init_extras']))
