"""Regenerate lean/SarpyModel/Gen/XmlTables.lean by reflection on sarpy's XML metadata element classes.

Mirrors what `Serializable.to_node` / `from_node` (sarpy/io/xml/base.py) read from a class:
`_fields`, `_required`, `_tag_override`, `_collections_tags`, `_set_as_attribute`, `_child_xml_ns_key`, and the descriptor
object of every field (kind of value, child class, array container class).

A *model class* is a pair (python class, namespace context): the namespace prefix a node inherits from its parent is
passed down the recursion in to_node/from_node, so the same python class produces differently qualified tags in different
contexts (SIDD: default / sicommon / sfa / ism).  The translator resolves that here and emits one table per pair with fully
qualified tags: `tag` is what to_node writes, `ptag` what from_node looks up (they differ when the two methods disagree
about the namespace of an attribute or of array children; `WF` then fails for that table).

A python class is *table-driven* when it does not override to_node/from_node/to_dict/from_dict/copy below Serializable and
every field is a plain descriptor of a supported kind.  Everything else (hand-written XML logic, property-backed fields,
float arrays) is listed under `outside` with the reason and enters the tables as an *opaque* class: the generic theorem treats
its XML body as a black box, the harness covers it by the oracle only.

Names are interned as Nat ids (tags, namespace keys, field names); the id -> string lists are emitted alongside."""
import ast
import importlib
import inspect
import os
import pkgutil
import textwrap

PACKAGES = [
    'sarpy.io.complex.sicd_elements',
    'sarpy.io.product.sidd1_elements',
    'sarpy.io.product.sidd2_elements',
    'sarpy.io.product.sidd3_elements',
    'sarpy.io.phase_history.cphd1_elements',
    'sarpy.io.phase_history.cphd0_3_elements',
    'sarpy.io.received.crsd1_elements',
    'sarpy.annotation.afrl_rde_elements',
]
ROOTS = [
    ('sarpy.io.complex.sicd_elements.SICD', 'SICDType'),
    ('sarpy.io.product.sidd1_elements.SIDD', 'SIDDType'),
    ('sarpy.io.product.sidd2_elements.SIDD', 'SIDDType'),
    ('sarpy.io.product.sidd3_elements.SIDD', 'SIDDType'),
    ('sarpy.io.phase_history.cphd1_elements.CPHD', 'CPHDType'),
    ('sarpy.io.phase_history.cphd0_3_elements.CPHD', 'CPHDType'),
    ('sarpy.io.received.crsd1_elements.CRSD', 'CRSDType'),
    ('sarpy.annotation.afrl_rde_elements.Research', 'ResearchType'),
]
CODEC_METHODS = ('to_node', 'from_node', 'to_dict', 'from_dict', 'copy')

# primitive kinds (ids used in the Lean tables)
PRIMS = ['str', 'enum', 'regex', 'bool', 'int', 'intenum', 'float', 'floatmod', 'datetime']
PRIM_ID = {n: i for i, n in enumerate(PRIMS)}

# synthetic classes (not python classes): a complex number <X><Real/><Imag/></X>, one <Parameter name="..">text</Parameter>
SYN_COMPLEX = '<complex>'
SYN_PARAM = '<parameter>'


def qual(c):
    return c if isinstance(c, str) else c.__module__ + '.' + c.__qualname__


def all_classes():
    """every Serializable subclass defined in the element packages: qualified name -> class"""
    from sarpy.io.xml.base import Serializable
    out = {}
    failed = []
    for p in PACKAGES:
        pk = importlib.import_module(p)
        for mi in pkgutil.iter_modules(pk.__path__):
            try:
                m = importlib.import_module(p + '.' + mi.name)
            except Exception as e:   # reported, never silently dropped
                failed.append((p + '.' + mi.name, f'{type(e).__name__}: {e}'))
                continue
            for n, c in inspect.getmembers(m, inspect.isclass):
                if issubclass(c, Serializable) and c is not Serializable and c.__module__.startswith('sarpy.'):
                    out[qual(c)] = c
    return out, failed


def root_classes():
    return [getattr(importlib.import_module(m), n) for m, n in ROOTS]


def overrides(c):
    """codec methods defined below Serializable in the MRO: ['to_node@Poly1DType', ...]"""
    from sarpy.io.xml.base import Serializable
    ov = []
    for k in c.__mro__:
        if k is Serializable:
            break
        ov += [f'{m}@{k.__name__}' for m in CODEC_METHODS if m in k.__dict__]
    return sorted(set(ov))


def init_extras(c):
    """statements of the class's own __init__ beyond the boilerplate (store namespace, assign each field, call super)"""
    f = c.__dict__.get('__init__')
    if f is None:
        return []
    try:
        fn = ast.parse(textwrap.dedent(inspect.getsource(f))).body[0]
    except Exception as e:
        return [f'<source unavailable: {type(e).__name__}>']
    fields = set(c._fields)

    def is_field_assign(st):
        if not (isinstance(st, ast.Assign) and len(st.targets) == 1):
            return False
        t, v = st.targets[0], st.value
        if isinstance(t, ast.Attribute) and isinstance(v, ast.Name):
            return t.attr == v.id and v.id in fields
        if isinstance(t, ast.Tuple) and isinstance(v, ast.Tuple) and len(t.elts) == len(v.elts):
            return all(isinstance(a, ast.Attribute) and isinstance(b, ast.Name) and a.attr == b.id and b.id in fields
                       for a, b in zip(t.elts, v.elts))
        return False

    def is_super_init(st):
        if not (isinstance(st, ast.Expr) and isinstance(st.value, ast.Call)):
            return False
        call = st.value
        fu = call.func
        if not (isinstance(fu, ast.Attribute) and fu.attr == '__init__' and isinstance(fu.value, ast.Call)
                and isinstance(fu.value.func, ast.Name) and fu.value.func.id == 'super'):
            return False
        if call.args:
            return False
        for kw in call.keywords:
            if kw.arg is None:
                continue
            if not (isinstance(kw.value, ast.Name) and kw.value.id == kw.arg):
                return False
        return True

    extras = []
    for st in fn.body:
        if isinstance(st, ast.Expr) and isinstance(st.value, ast.Constant):
            continue
        s = ' '.join(ast.unparse(st).split())
        if s in ("if '_xml_ns' in kwargs: self._xml_ns = kwargs['_xml_ns']",
                 "if '_xml_ns_key' in kwargs: self._xml_ns_key = kwargs['_xml_ns_key']"):
            continue
        if is_field_assign(st) or is_super_init(st):
            continue
        extras.append(s[:160])
    return extras


def norm_ns(k):
    return None if k in (None, 'default') else k


def field_rows(c, ctx):
    """rows of python class c in namespace context ctx (None = default namespace), or (None, reason).

    Mirrors Serializable.to_node (base.py: the loop over self._fields) and from_node (the loop over cls._fields)."""
    from sarpy.io.xml import descriptors as D
    from sarpy.io.xml.base import SerializableArray
    try:
        from sarpy.io.complex.sicd_elements.base import SerializableCPArrayDescriptor
    except Exception:   # pragma: no cover
        SerializableCPArrayDescriptor = ()
    rows = []
    for attr in c._fields:
        d = inspect.getattr_static(c, attr, None)
        base_tag = c._tag_override.get(attr, attr)
        required = attr in c._required
        fmt = c._numeric_format.get(attr)
        if attr in c._set_as_attribute:
            # to_node: xml_ns_key = self._child_xml_ns_key.get(attribute, ns_key); serialize_attribute drops None/'default'
            # from_node: xml_ns_key = cls._child_xml_ns_key.get(attribute, None)
            ser_ns = norm_ns(c._child_xml_ns_key.get(attr, ctx))
            par_ns = c._child_xml_ns_key.get(attr, None)   # a literal 'default' is looked up as {default-uri}tag
            p = prim_of(d)
            if p is None:
                return None, f'attribute field {attr} is not a primitive descriptor ({type(d).__name__})'
            rows.append(dict(name=attr, kind='attr', prim=p, tag=(ser_ns, base_tag), ptag=(par_ns, base_tag), required=required,
                             fmt=fmt, desc=type(d).__name__))
            continue
        # element fields: to_node uses _child_xml_ns_key[attr] if present else getattr(self, '_xml_ns_key', ns_key) ('default' -> None);
        # from_node uses _child_xml_ns_key[attr] if present else ns_key (find 'default:tag' == unprefixed)
        if attr in c._child_xml_ns_key:
            ns = c._child_xml_ns_key[attr]
            ns = None if ns is None else ns      # a literal 'default' would be written as a 'default:' prefix; none occurs
        else:
            ns = norm_ns(ctx)
        row = dict(name=attr, required=required, fmt=fmt, desc=type(d).__name__)
        p = prim_of(d)
        if p is not None:
            row.update(kind='prim', prim=p, tag=(ns, base_tag), ptag=(ns, base_tag))
        elif isinstance(d, D.ComplexDescriptor):
            row.update(kind='child', cls=SYN_COMPLEX, cctx=ns, tag=(ns, base_tag), ptag=(ns, base_tag))
        elif isinstance(d, (D.SerializableDescriptor, D.UnitVectorDescriptor)):
            row.update(kind='child', cls=d.the_type, cctx=ns, tag=(ns, base_tag), ptag=(ns, base_tag),
                       canon='unit' if isinstance(d, D.UnitVectorDescriptor) else None)
        elif isinstance(d, D.SerializableListDescriptor):
            ct = c._collections_tags.get(attr, {}).get('child_tag')
            if ct is None or ct != d.child_tag:
                return None, f'list field {attr}: _collections_tags child_tag {ct!r} vs descriptor {d.child_tag!r}'
            row.update(kind='list', cls=d.child_type, cctx=ns, tag=(ns, ct), ptag=(ns, ct))
        elif isinstance(d, D.ParametersDescriptor):
            ct = c._collections_tags.get(attr, {}).get('child_tag')
            if ct is None or ct != d.child_tag:
                return None, f'parameters field {attr}: _collections_tags child_tag {ct!r} vs descriptor {d.child_tag!r}'
            row.update(kind='list', cls=SYN_PARAM, cctx=ns, tag=(ns, ct), ptag=(ns, ct))
        elif isinstance(d, (D.StringListDescriptor, D.IntegerListDescriptor, D.FloatListDescriptor)):
            ct = c._collections_tags.get(attr, {}).get('child_tag')
            if ct is None:
                return None, f'primitive list field {attr} without child_tag'
            p = {'StringListDescriptor': 'str', 'IntegerListDescriptor': 'int', 'FloatListDescriptor': 'float'}[type(d).__name__]
            row.update(kind='primlist', prim=p, tag=(ns, ct), ptag=(ns, ct))
        elif isinstance(d, D.SerializableArrayDescriptor) or (SerializableCPArrayDescriptor and isinstance(d, SerializableCPArrayDescriptor)):
            tags = c._collections_tags.get(attr, {})
            ct = tags.get('child_tag')
            if ct is None or ct != d.child_tag or not tags.get('array', False):
                return None, f'array field {attr}: inconsistent _collections_tags {tags!r}'
            if isinstance(d, D.SerializableArrayDescriptor):
                ext = d.array_extension
                # the container is built with _xml_ns_key = the parent's context (descriptors.py SerializableArrayDescriptor.__set__),
                # and parse_serializable_array looks the children up with that key
                par_child_ns = norm_ns(ctx)
            else:
                from sarpy.io.complex.sicd_elements.base import SerializableCPArray
                ext = SerializableCPArray
                par_child_ns = ns
            own = [m for k in ext.__mro__ if k is not SerializableArray and k is not object
                   for m in ('to_node', 'from_node', 'set_array', 'to_json_list') if m in k.__dict__]
            size_attr = ext._size_var_name if ext._set_size else None
            if ext.__name__ == 'SerializableCPArray':
                size_attr = None   # its to_node writes no size attribute
                own = [m for m in own if m != 'to_node']
            if own:
                return None, f'array field {attr}: container {ext.__name__} overrides {own}'
            row.update(kind='array', cls=d.child_type, cctx=ns, tag=(ns, base_tag), ptag=(ns, base_tag),
                       ctag=(ns, ct), pctag=(par_child_ns, ct), size=size_attr, container=ext.__name__,
                       index_var=(ext._index_var_name if ext._set_index else None))
        else:
            return None, f'field {attr}: unsupported descriptor {type(d).__name__}'
        rows.append(row)
    return rows, None


def prim_of(d):
    from sarpy.io.xml import descriptors as D
    if isinstance(d, D.StringEnumDescriptor):
        return 'enum'
    if isinstance(d, D.StringRegexDescriptor):
        return 'regex'
    if isinstance(d, D.StringDescriptor):
        return 'str'
    if isinstance(d, D.BooleanDescriptor):
        return 'bool'
    if isinstance(d, D.IntegerEnumDescriptor):
        return 'intenum'
    if isinstance(d, D.IntegerDescriptor):
        return 'int'
    if isinstance(d, D.FloatModularDescriptor):
        return 'floatmod'
    if isinstance(d, D.FloatDescriptor):
        return 'float'
    if isinstance(d, D.DateTimeDescriptor):
        return 'datetime'
    return None


def classify(c):
    """None if table-driven, else the reason it is outside the generic theorem"""
    ov = overrides(c)
    if ov:
        return 'overrides ' + ', '.join(ov)
    rows, why = field_rows(c, None)
    if rows is None:
        return why
    for k in ('__setattr__', '__getstate__', '__setstate__', '_get_formatter'):
        from sarpy.io.xml.base import Serializable
        for b in c.__mro__:
            if b is Serializable:
                break
            if k in b.__dict__:
                return f'overrides {k}@{b.__name__}'
    return None


class Interner:
    def __init__(self, first=()):
        self.ids = {}
        self.names = []
        for f in first:
            self.get(f)

    def get(self, s):
        if s not in self.ids:
            self.ids[s] = len(self.names)
            self.names.append(s)
        return self.ids[s]


def build():
    """reflect everything; returns the python-side description used both for the Lean file and by the harness"""
    classes, failed = all_classes()
    roots = root_classes()
    for r in roots:
        classes.setdefault(qual(r), r)
    outside = {}
    for q, c in sorted(classes.items()):
        why = classify(c)
        if why is not None:
            outside[q] = why
    # model classes: (qualified python class | synthetic, ctx); closure from (every class, None)
    ids = {}
    order = []
    work = []

    def cid(c, ctx):
        key = (qual(c), ctx)
        if key not in ids:
            ids[key] = len(order)
            order.append(key)
            work.append((c, ctx))
        return ids[key]

    for r in roots:
        cid(r, None)
    for q, c in sorted(classes.items()):
        cid(c, None)
    tables = {}
    while work:
        c, ctx = work.pop()
        key = (qual(c), ctx)
        if c == SYN_COMPLEX:
            tables[key] = [dict(name='Real', kind='prim', prim='float', tag=(ctx, 'Real'), ptag=(ctx, 'Real'), required=True, fmt=None, desc='-'),
                           dict(name='Imag', kind='prim', prim='float', tag=(ctx, 'Imag'), ptag=(ctx, 'Imag'), required=True, fmt=None, desc='-')]
            continue
        if c == SYN_PARAM:
            # ParametersCollection.to_node: node.attrib['name'] = name (never prefixed); parse_parameters_collection: entry.attrib['name']
            tables[key] = [dict(name='name', kind='attr', prim='str', tag=(None, 'name'), ptag=(None, 'name'), required=True, fmt=None, desc='-'),
                           dict(name='value', kind='text', prim='str', tag=(None, '#text'), ptag=(None, '#text'), required=True, fmt=None, desc='-')]
            continue
        q = qual(c)
        if q not in classes:
            classes[q] = c          # reachable class defined outside the packages
            why = classify(c)
            if why is not None:
                outside[q] = why
        if q in outside:
            tables[key] = None      # opaque
            # children of outside classes that the descriptors still expose are reachable too
            for attr in c._fields:
                d = inspect.getattr_static(c, attr, None)
                for t in (getattr(d, 'the_type', None), getattr(d, 'child_type', None)):
                    if inspect.isclass(t):
                        cid(t, None)
            continue
        rows, why = field_rows(c, ctx)
        assert rows is not None, (q, ctx, why)
        for r in rows:
            if 'cls' in r:
                r['cid'] = cid(r['cls'], r['cctx'])
        tables[key] = rows
    # reachability from the roots (python classes, any context)
    reach = set()
    stack = [ids[(qual(r), None)] for r in roots]
    while stack:
        i = stack.pop()
        if i in reach:
            continue
        reach.add(i)
        rows = tables[order[i]]
        if rows:
            stack += [r['cid'] for r in rows if 'cid' in r]
        elif rows is None and not order[i][0].startswith('<'):
            c = classes[order[i][0]]
            for attr in c._fields:
                d = inspect.getattr_static(c, attr, None)
                for t in (getattr(d, 'the_type', None), getattr(d, 'child_type', None)):
                    if inspect.isclass(t) and (qual(t), None) in ids:
                        stack.append(ids[(qual(t), None)])
    reach_py = sorted({order[i][0] for i in reach if not order[i][0].startswith('<')})
    extras = {q: e for q, c in sorted(classes.items()) for e in [init_extras(c)] if e}
    return dict(classes=classes, roots=[qual(r) for r in roots], outside=outside, order=order, ids=ids, tables=tables,
                reachable=reach_py, import_failures=failed, init_extras=extras)


def row_mismatch(r):
    return r['tag'] != r['ptag'] or (r['kind'] == 'array' and r['ctag'] != r['pctag'])


def lean_text(info):
    tags = Interner()
    nss = Interner([None])
    names = Interner()

    def qn(t):
        return f'({nss.get(t[0])}, {tags.get(t[1])})'

    ents = []
    mism = []
    for i, key in enumerate(info['order']):
        rows = info['tables'][key]
        if rows is None:
            ents.append(f'  /- {i}: {key[0]} @{key[1]} -/ .custom')
            continue
        rs = []
        for r in rows:
            k = r['kind']
            if k == 'prim':
                kk = f'.prim {PRIM_ID[r["prim"]]}'
            elif k == 'attr':
                kk = f'.attr {PRIM_ID[r["prim"]]}'
            elif k == 'text':
                kk = f'.text {PRIM_ID[r["prim"]]}'
            elif k == 'child':
                kk = f'.child {r["cid"]}'
            elif k == 'list':
                kk = f'.list {r["cid"]}'
            elif k == 'primlist':
                kk = f'.primList {PRIM_ID[r["prim"]]}'
            elif k == 'array':
                sz = 'none' if r['size'] is None else f'(some (0, {tags.get(r["size"])}))'
                kk = f'.array {r["cid"]} {qn(r["ctag"])} {qn(r["pctag"])} {sz}'
            else:
                raise ValueError(k)
            if row_mismatch(r):
                mism.append((i, key, r['name']))
            rs.append(f'⟨{names.get(r["name"])}, {qn(r["tag"])}, {qn(r["ptag"])}, {kk}, {"true" if r["required"] else "false"}⟩')
        ents.append(f'  /- {i}: {key[0]} @{key[1]} -/ .rows [' + ', '.join(rs) + ']')
    lines = ['-- GENERATED by translate/tables_xml.py from /repo (do not edit; regenerated on every check run)',
             'import SarpyModel.Spec.XmlFmt', 'namespace Sarpy.Gen.Xml', 'open Sarpy.Spec.XmlFmt', '',
             f'-- {len(info["order"])} model classes (python class x namespace context), '
             f'{sum(1 for k in info["order"] if info["tables"][k] is None)} opaque',
             'def tables : Tabs := [', ',\n'.join(ents), ']', '']

    def strlist(nm, xs):
        return f'def {nm} : List String := [' + ', '.join('"%s"' % ('' if x is None else x) for x in xs) + ']'
    lines.append(strlist('tagNames', tags.names))
    lines.append(strlist('nsNames', nss.names))
    lines.append(strlist('fieldNames', names.names))
    lines.append(strlist('primNames', PRIMS))
    lines.append('def classNames : List String := [' + ', '.join('"%s@%s"' % (k[0].replace('sarpy.', ''), k[1] or '') for k in info['order']) + ']')
    lines.append('def outsideClasses : List String := [' + ', '.join('"%s"' % q.replace('sarpy.', '') for q in sorted(info['outside'])) + ']')
    lines.append('')
    lines.append('/-- every table is well formed: distinct element tags, distinct attribute names, at most one text row, writer and reader')
    lines.append('    agree on every qualified tag, child classes exist.  A change of a class table that breaks this breaks the build. -/')
    lines.append('theorem tables_wf : WF tables := by decide +kernel')
    lines.append('')
    lines.append('/-- field names are distinct per class (what the dict form and copy rely on) -/')
    lines.append('theorem tables_dwf : DWF tables := by decide +kernel')
    lines.append('')
    lines.append('end Sarpy.Gen.Xml')
    return '\n'.join(lines) + '\n', dict(tags=tags, nss=nss, names=names), mism


def generate(path):
    info = build()
    text, interned, mism = lean_text(info)
    old = open(path).read() if os.path.exists(path) else None
    if old != text:
        os.makedirs(os.path.dirname(path), exist_ok=True)
        with open(path, 'w') as f:
            f.write(text)
    info['changed'] = old != text
    info['interned'] = interned
    info['mismatch_rows'] = mism
    return info


if __name__ == '__main__':
    import logging
    logging.disable(logging.CRITICAL)
    here = os.path.dirname(os.path.abspath(__file__))
    r = generate(os.path.join(here, '..', 'lean', 'SarpyModel', 'Gen', 'XmlTables.lean'))
    py = sorted(r['classes'])
    print('python classes', len(py), 'outside', len(r['outside']), 'model classes', len(r['order']),
          'opaque', sum(1 for k in r['order'] if r['tables'][k] is None), 'reachable', len(r['reachable']), 'changed', r['changed'])
    print('import failures', r['import_failures'])
    print('mismatch rows', r['mismatch_rows'])
    for q, w in sorted(r['outside'].items()):
        print('  outside', q, '--', w)
    print('init extras', len(r['init_extras']))
