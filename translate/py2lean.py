"""py2lean: translate loop-free integer Python kernels of sarpy to Lean 4.

The translation is *typed*: every Python value is given one of the Lean types below and
every operation that Python would reject at run time (arithmetic on None, division by
zero) becomes an `Except.error` carrying the Python exception class name.  The output is
a `do` block in `Except String`, which Lean elaborates to pure, total, kernel-reducible
code.  Anything outside the supported subset raises `Unsupported` naming the construct;
callers must fail closed on that.

Fixed readings of float idioms (trusted base; operands are image-scale integers < 2^53):
  int(numpy.floor(a / b))  -> floor division      int(numpy.ceil(a / b)) -> ceiling division
  int(a / b), int(a / float(b)) -> truncating division
"""
import ast
import hashlib
import inspect
import textwrap

INT, OPT, BOOL, SLICE, ITEM, NONE = 'Int', 'Option Int', 'Bool', 'PySlice', 'PyItem', 'None'


class Unsupported(Exception):
    pass


LEAN_KEYWORDS = {'include', 'end', 'from', 'at', 'in', 'then', 'else', 'do', 'open', 'section', 'namespace', 'variable',
                 'fun', 'let', 'have', 'show', 'match', 'with', 'where', 'def', 'theorem', 'structure', 'class',
                 'instance', 'if', 'for', 'return', 'mut', 'by', 'local', 'private', 'macro', 'syntax', 'universe',
                 'export', 'import', 'prefix', 'infix', 'notation', 'using', 'calc', 'Type', 'Prop', 'Sort'}


def mangle(n):
    return n + '_' if n in LEAN_KEYWORDS else n


class Restart(Exception):
    pass


class Tr:
    def __init__(self, fn, sig, name, rettype, known=None, src=None):
        """fn: python function; sig: {param: type}; name: Lean name; rettype: Lean-side type tag;
        known: {python callee name: (lean name, [param types], ret type)} for calls to other kernels."""
        self.fn = fn
        self.sig = sig
        self.name = name
        self.rettype = rettype
        self.known = dict(known or {})
        self.src = src if src is not None else textwrap.dedent(inspect.getsource(fn))
        self.tree = ast.parse(self.src).body[0]
        self.counter = 0
        self.vartypes = {}
        self.aux = []  # auxiliary top-level defs (closures)
        self.narrowed = set()

    def fresh(self, p='t'):
        self.counter += 1
        return f'{p}_{self.counter}'

    # ---------------------------------------------------------------- expressions
    def as_int(self, e, env, pre):
        s, t = self.expr(e, env, pre)
        if t == INT:
            return s
        if t == OPT:
            v = self.fresh('v')
            pre.append(f'let {v} ← getI {s}')
            return v
        if t == NONE:
            v = self.fresh('v')
            pre.append(f'let {v} ← getI none')
            return v
        raise Unsupported(f'need int got {t} for {ast.dump(e)[:80]}')

    def as_opt(self, e, env, pre):
        s, t = self.expr(e, env, pre)
        return self.coerce(s, t, OPT)

    def as_bool(self, e, env, pre):
        s, t = self.expr(e, env, pre)
        if t == BOOL:
            return s
        raise Unsupported(f'need bool got {t}: {ast.dump(e)[:80]}')

    def coerce(self, s, t, to):
        if t == to:
            return s
        if to == OPT and t == INT:
            return f'(some {s})'
        if to == OPT and t == NONE:
            return 'none'
        raise Unsupported(f'coerce {t} -> {to}')

    def callname(self, f):
        if isinstance(f, ast.Name):
            return f.id
        if isinstance(f, ast.Attribute) and isinstance(f.value, ast.Name):
            return f'{f.value.id}.{f.attr}'
        if isinstance(f, ast.Attribute) and isinstance(f.value, ast.Constant) and f.attr == 'format':
            return 'str.format'
        raise Unsupported('callee ' + ast.dump(f)[:60])

    def expr(self, e, env, pre):
        if not isinstance(e, ast.Constant) and not any(isinstance(n, (ast.Name, ast.Call, ast.Attribute)) for n in ast.walk(e)) \
                and isinstance(e, (ast.BinOp, ast.UnaryOp)):
            try:
                v = eval(compile(ast.Expression(body=e), '<const>', 'eval'), {'__builtins__': {}})
                if isinstance(v, int) and not isinstance(v, bool):
                    return f'({v} : Int)', INT
            except Exception:
                pass
        if isinstance(e, ast.Constant):
            if e.value is None:
                return 'none', NONE
            if isinstance(e.value, bool):
                return ('true' if e.value else 'false'), BOOL
            if isinstance(e.value, int):
                return f'({e.value} : Int)', INT
            raise Unsupported(f'const {e.value!r}')
        if isinstance(e, ast.Name):
            if e.id in env:
                return env[e.id]
            raise Unsupported(f'name {e.id}')
        if isinstance(e, ast.Attribute) and e.attr in ('start', 'stop', 'step'):
            s, t = self.expr(e.value, env, pre)
            if t != SLICE:
                raise Unsupported('attr on non-slice')
            return f'{s}.{e.attr}', OPT
        if isinstance(e, ast.UnaryOp):
            if isinstance(e.op, ast.USub):
                return f'(-{self.as_int(e.operand, env, pre)})', INT
            if isinstance(e.op, ast.Not):
                return f'(!{self.as_bool(e.operand, env, pre)})', BOOL
        if isinstance(e, ast.BinOp):
            if isinstance(e.op, (ast.Add, ast.Sub, ast.Mult)):
                a = self.as_int(e.left, env, pre)
                b = self.as_int(e.right, env, pre)
                op = {ast.Add: '+', ast.Sub: '-', ast.Mult: '*'}[type(e.op)]
                return f'({a} {op} {b})', INT
            if isinstance(e.op, ast.FloorDiv):
                a = self.as_int(e.left, env, pre)
                b = self.as_int(e.right, env, pre)
                v = self.fresh('q')
                pre.append(f'let {v} ← floorDiv {a} {b}')
                return v, INT
            if isinstance(e.op, ast.Mod):
                a = self.as_int(e.left, env, pre)
                b = self.as_int(e.right, env, pre)
                v = self.fresh('q')
                pre.append(f'let {v} ← pyMod {a} {b}')
                return v, INT
            raise Unsupported(f'binop {type(e.op).__name__} outside int()/floor/ceil')
        if isinstance(e, ast.BoolOp):
            parts = []
            for v in e.values:
                p = []
                s = self.as_bool(v, env, p)
                parts.append((p, s))
            isand = isinstance(e.op, ast.And)
            if all(not p for p, _ in parts):
                op = ' && ' if isand else ' || '
                return '(' + op.join(s for _, s in parts) + ')', BOOL

            def mk(i, ind):
                p, s = parts[i]
                body = [ind + l for l in p]
                if i == len(parts) - 1:
                    return body + [ind + f'pure {s}']
                inner = mk(i + 1, ind + '  ')
                if isand:
                    return body + [ind + f'if {s} then do'] + inner + [ind + 'else pure false']
                return body + [ind + f'if {s} then pure true else do'] + inner
            v = self.fresh('b')
            blk = mk(0, '    ')
            pre.append(f'let {v} ← (do\n' + '\n'.join(blk) + ')')
            return v, BOOL
        if isinstance(e, ast.Compare):
            items = [e.left] + e.comparators
            res = []
            for l, op, r in zip(items, e.ops, items[1:]):
                if isinstance(op, (ast.Is, ast.IsNot)) and isinstance(r, ast.Constant) and r.value is None:
                    s, t = self.expr(l, env, pre)
                    pos = isinstance(op, ast.Is)
                    if t == OPT:
                        res.append(f'{s}.isNone' if pos else f'{s}.isSome')
                    elif t == ITEM:
                        res.append(f'{s}.isNone' if pos else f'(!{s}.isNone)')
                    elif t in (INT, SLICE, BOOL):
                        res.append('false' if pos else 'true')
                    elif t == NONE:
                        res.append('true' if pos else 'false')
                    else:
                        raise Unsupported('is None on ' + t)
                    continue
                if isinstance(op, (ast.In, ast.NotIn)) and isinstance(r, (ast.List, ast.Tuple)):
                    a = self.as_int(l, env, pre)
                    alts = ' || '.join(f'{a} == {self.as_int(x, env, pre)}' for x in r.elts)
                    res.append(f'({alts})' if isinstance(op, ast.In) else f'(!({alts}))')
                    continue
                a = self.as_int(l, env, pre)
                b = self.as_int(r, env, pre)
                o = {ast.Lt: '<', ast.LtE: '<=', ast.Gt: '>', ast.GtE: '>=', ast.Eq: '==', ast.NotEq: '!='}[type(op)]
                res.append(f'decide ({a} {o} {b})' if o in ('<', '<=', '>', '>=') else f'({a} {o} {b})')
            return '(' + ' && '.join(res) + ')', BOOL
        if isinstance(e, ast.IfExp):
            c = self.as_bool(e.test, env, pre)
            p1 = []
            p2 = []
            s1, t1 = self.expr(e.body, env, p1)
            s2, t2 = self.expr(e.orelse, env, p2)
            if t1 == t2 == INT:
                jt = INT
            elif {t1, t2} <= {INT, OPT, NONE}:
                jt = OPT
                s1 = self.coerce(s1, t1, OPT)
                s2 = self.coerce(s2, t2, OPT)
            else:
                raise Unsupported('ifexp types')

            def blk(p, s):
                if not p:
                    return f'pure {s}'
                return 'do\n' + '\n'.join('      ' + l for l in p) + f'\n      pure {s}'
            v = self.fresh('c')
            pre.append(f'let {v} ← (if {c} then {blk(p1, s1)} else {blk(p2, s2)})')
            return v, jt
        if isinstance(e, ast.Call):
            f = self.callname(e.func)
            if f == 'slice' and len(e.args) == 3:
                a, b, c = (self.as_opt(x, env, pre) for x in e.args)
                return f'(PySlice.mk {a} {b} {c})', SLICE
            if f in ('min', 'max') and len(e.args) == 2:
                a = self.as_int(e.args[0], env, pre)
                b = self.as_int(e.args[1], env, pre)
                return f'({f} {a} {b})', INT
            if f == 'abs':
                return f'(Int.natAbs {self.as_int(e.args[0], env, pre)} : Int)', INT
            if f == 'numpy.sign':
                return f'(Int.sign {self.as_int(e.args[0], env, pre)})', INT
            if f == 'int' and len(e.args) == 1:
                return self.intcast(e.args[0], env, pre), INT
            if f == 'isinstance' and len(e.args) == 2:
                s, t = self.expr(e.args[0], env, pre)
                cls = self.callname(e.args[1]) if not isinstance(e.args[1], ast.Tuple) else None
                if t == INT and cls == 'int':
                    return 'true', BOOL
                if t == ITEM and cls == 'int':
                    return f'{s}.isInt', BOOL
                if t == ITEM and cls == 'slice':
                    return f'{s}.isSlice', BOOL
                if t == ITEM and cls == 'Sequence':
                    # tuple-form items are converted to slices by the caller-side model; not modelled here
                    return 'false', BOOL
                raise Unsupported(f'isinstance({t}, {cls})')
            if f in self.known:
                lname, ptypes, rt = self.known[f]
                args = []
                for x, pt in zip(e.args, ptypes):
                    if pt == INT:
                        args.append(self.as_int(x, env, pre))
                    elif pt == OPT:
                        args.append(self.as_opt(x, env, pre))
                    else:
                        s, t = self.expr(x, env, pre)
                        if t != pt:
                            raise Unsupported(f'arg type {t} vs {pt} in call {f}')
                        args.append(s)
                v = self.fresh('r')
                pre.append(f'let {v} ← {lname} ' + ' '.join(args))
                return v, rt
            raise Unsupported(f'call {f}')
        raise Unsupported(ast.dump(e)[:80])

    def divparts(self, e, env, pre):
        if isinstance(e, ast.BinOp) and isinstance(e.op, ast.Div):
            den = e.right
            if isinstance(den, ast.Call) and self.callname(den.func) == 'float':
                den = den.args[0]
            num = e.left
            if isinstance(num, ast.Call) and self.callname(num.func) == 'float':
                num = num.args[0]
            return self.as_int(num, env, pre), self.as_int(den, env, pre)
        raise Unsupported('expected a/b inside int()')

    def intcast(self, inner, env, pre):
        if isinstance(inner, ast.BinOp) and isinstance(inner.op, (ast.Add, ast.Sub)):
            l = self.intcast(inner.left, env, pre)
            r = self.as_int(inner.right, env, pre)
            return f'({l} {"+" if isinstance(inner.op, ast.Add) else "-"} {r})'
        if isinstance(inner, ast.Call) and self.callname(inner.func) in ('numpy.floor', 'numpy.ceil', 'math.floor', 'math.ceil'):
            a, b = self.divparts(inner.args[0], env, pre)
            v = self.fresh('q')
            pre.append(f'let {v} ← {"floorDiv" if "floor" in self.callname(inner.func) else "ceilDiv"} {a} {b}')
            return v
        if isinstance(inner, ast.BinOp) and isinstance(inner.op, ast.Div):
            a, b = self.divparts(inner, env, pre)
            v = self.fresh('q')
            pre.append(f'let {v} ← truncDiv {a} {b}')
            return v
        return self.as_int(inner, env, pre)

    # ---------------------------------------------------------------- statements
    def excname(self, st):
        e = st.exc
        if isinstance(e, ast.Call):
            e = e.func
        return e.id if isinstance(e, ast.Name) else 'Exception'

    def item_match(self, st, env, ind):
        """`if X is None / isinstance(X, int|slice)` on an ITEM variable -> pattern match binding a typed var."""
        t = st.test
        if isinstance(t, ast.Call) and isinstance(t.func, ast.Name) and t.func.id == 'isinstance' \
                and isinstance(t.args[0], ast.Name) and env.get(t.args[0].id, (None, None))[1] == ITEM \
                and isinstance(t.args[1], ast.Name) and t.args[1].id in ('int', 'slice'):
            var = t.args[0].id
            kind = t.args[1].id
            return var, kind
        return None

    def assigned_names(self, stmts):
        out = []
        for st in stmts:
            for n in ast.walk(st):
                if isinstance(n, ast.Assign):
                    for tg in n.targets:
                        if isinstance(tg, ast.Name):
                            out.append(tg.id)
                elif isinstance(n, ast.AugAssign) and isinstance(n.target, ast.Name):
                    out.append(n.target.id)
        return out

    # -- control-flow helpers (purely functional translation: no `let mut`, no join points) --
    @staticmethod
    def _always(stmts):
        for st in stmts:
            if isinstance(st, (ast.Return, ast.Raise)):
                return True
            if isinstance(st, ast.If) and st.orelse and Tr._always(st.body) and Tr._always(st.orelse):
                return True
        return False

    @staticmethod
    def _may(stmts):
        return any(isinstance(n, (ast.Return, ast.Raise)) for st in stmts for n in ast.walk(st))

    def block(self, stmts, env, ind):
        """Translate a statement list that always terminates (return/raise) into do-block lines.
        Assignments become shadowing `let`s; an `if` that falls through binds the tuple of variables
        it may assign; an `if` that may return absorbs the rest of the list into both branches."""
        lines = []
        env = dict(env)
        stmts = list(stmts)
        while stmts:
            st = stmts.pop(0)
            if isinstance(st, ast.Expr) and isinstance(st.value, ast.Constant):
                continue  # docstring
            if isinstance(st, ast.Pass):
                continue
            if isinstance(st, ast.FunctionDef):
                self.closure(st, env)
                continue
            if isinstance(st, ast.Return):
                pre = []
                s = self.retval(st.value, env, pre)
                lines += [ind + l for l in pre] + [ind + f'return {s}']
                return lines, env, True
            if isinstance(st, ast.Raise):
                lines.append(ind + f'throw "{self.excname(st)}"')
                return lines, env, True
            if isinstance(st, ast.AugAssign) and isinstance(st.target, ast.Name):
                st = ast.Assign(targets=[st.target], value=ast.BinOp(left=ast.Name(id=st.target.id), op=st.op, right=st.value))
            if isinstance(st, ast.Assign) and len(st.targets) == 1 and isinstance(st.targets[0], ast.Name):
                pre = []
                s, t = self.expr(st.value, env, pre)
                pyn = st.targets[0].id
                n = mangle(pyn)
                if pyn in self.narrowed:
                    self.narrowed.discard(pyn)
                    n = self.fresh(n)
                    lines += [ind + l for l in pre] + [ind + f'let {n} : {t} := {s}']
                    env[pyn] = (n, t)
                    continue
                want = self.vartypes.get(n, t)
                if pyn in env and env[pyn][1] != want and env[pyn][1] in (INT, OPT, NONE, ITEM):
                    want = env[pyn][1] if env[pyn][1] != INT or t == INT else want
                if want != t:
                    if want == OPT and t in (INT, NONE):
                        s = self.coerce(s, t, OPT)
                        t = OPT
                    elif {want, t} <= {INT, OPT, NONE}:
                        self.vartypes[n] = OPT
                        raise Restart()
                    elif want == ITEM and t == SLICE:
                        s = f'(PyItem.slice {s})'
                        t = ITEM
                    else:
                        raise Unsupported(f'retype {n}: {want} vs {t}')
                self.vartypes.setdefault(n, t)
                lines += [ind + l for l in pre] + [ind + f'let {n} : {t} := {s}']
                env[pyn] = (n, t)
                continue
            if isinstance(st, ast.If):
                im = self.item_match(st, env, ind)
                if im is not None:
                    var, kind = im
                    bound = self.fresh(var + ('_i' if kind == 'int' else '_s'))
                    env1 = dict(env)
                    env1[var] = (bound, INT if kind == 'int' else SLICE)
                    self.narrowed.add(var)
                    body = st.body if self._always(st.body) else st.body + stmts
                    l1, _, r1 = self.block(body, env1, ind + '  ')
                    self.narrowed.discard(var)
                    if not r1:
                        raise Unsupported('narrowed isinstance branch must terminate')
                    l2, _, r2 = self.block((st.orelse or []) + stmts, env, ind + '  ')
                    if not r2:
                        raise Unsupported('statement list may fall off the end')
                    lines.append(ind + f'if let PyItem.{kind} {bound} := {env[var][0]} then')
                    lines += l1
                    lines.append(ind + 'else')
                    lines += l2
                    return lines, env, True
                pre = []
                c = self.as_bool(st.test, env, pre)
                if c == 'false' and not pre:
                    # statically dead branch (e.g. isinstance(item, Sequence) for a PyItem)
                    stmts = list(st.orelse or []) + stmts
                    continue
                if c == 'true' and not pre:
                    stmts = list(st.body) + stmts
                    continue
                lines += [ind + l for l in pre]
                a1 = self._always(st.body)
                a2 = bool(st.orelse) and self._always(st.orelse)
                if a1 and a2:
                    l1, _, _ = self.block(st.body, env, ind + '  ')
                    l2, _, _ = self.block(st.orelse, env, ind + '  ')
                    lines += [ind + f'if {c} then'] + l1 + [ind + 'else'] + l2
                    return lines, env, True
                if self._may(st.body) or self._may(st.orelse or []):
                    # some path returns, some falls through: the rest of the list is absorbed into both branches
                    l1, _, r1 = self.block(st.body if a1 else st.body + stmts, env, ind + '  ')
                    l2, _, r2 = self.block((st.orelse or []) if a2 else (st.orelse or []) + stmts, env, ind + '  ')
                    if not (r1 and r2):
                        raise Unsupported('statement list may fall off the end')
                    lines += [ind + f'if {c} then'] + l1 + [ind + 'else'] + l2
                    return lines, env, True
                # neither branch returns: bind the tuple of variables the branches may assign
                names = list(dict.fromkeys(self.assigned_names(st.body) + self.assigned_names(st.orelse or [])))
                if not names:
                    continue
                # element types: from a trial translation of the branches
                _, e1, _ = self.block_open(st.body, env, ind + '    ')
                _, e2, _ = self.block_open(st.orelse or [], env, ind + '    ')
                types = {}
                for k in names:
                    ts = {e.get(k, (None, None))[1] for e in (e1, e2, env)} - {None}
                    mk = mangle(k)
                    if self.vartypes.get(mk):
                        jt = self.vartypes[mk]
                    elif len(ts) == 1:
                        jt = next(iter(ts))
                    elif ts <= {INT, OPT, NONE}:
                        jt = OPT
                    else:
                        raise Unsupported(f'join {k} {ts}')
                    if jt == NONE:
                        jt = OPT
                    types[k] = jt
                    if k in env and env[k][1] != jt:
                        if {env[k][1], jt} <= {INT, OPT, NONE}:
                            self.vartypes[mk] = OPT
                            raise Restart()
                        raise Unsupported(f'branch retype {k}')
                    if k not in env:
                        default = {INT: '0', OPT: 'none', SLICE: 'default', BOOL: 'false'}[jt]
                        lines.append(ind + f'let {mk} : {jt} := {default}')
                        env[k] = (mk, jt)
                        self.vartypes.setdefault(mk, jt)

                def close(e):
                    parts = []
                    for k in names:
                        nm, t = e.get(k, env[k])
                        parts.append(self.coerce(nm, t, types[k]) if t != types[k] else nm)
                    return '(' + ', '.join(parts) + ')' if len(parts) > 1 else parts[0]
                l1, e1, _ = self.block_open(st.body, env, ind + '    ')
                l2, e2, _ = self.block_open(st.orelse or [], env, ind + '    ')
                pat = '(' + ', '.join(mangle(k) for k in names) + ')' if len(names) > 1 else mangle(names[0])
                ty = ' × '.join(types[k] for k in names)
                lines.append(ind + f'let {pat} : {ty} ← (if {c} then (do')
                lines += l1 + [ind + '    ' + f'pure {close(e1)})']
                lines.append(ind + '  else (do')
                lines += l2 + [ind + '    ' + f'pure {close(e2)}))']
                for k in names:
                    env[k] = (mangle(k), types[k])
                continue
            raise Unsupported(ast.dump(st)[:80])
        return lines, env, False

    def block_open(self, stmts, env, ind):
        """a statement list without return/raise (a fall-through branch): lines + resulting env"""
        lines, e, r = self.block(stmts, env, ind)
        if r:
            raise Unsupported('unexpected return in fall-through branch')
        return lines, e, r

    def closure(self, fd, env):
        """nested def without mutation of outer variables -> auxiliary top-level def with captures as params."""
        free = [k for k in env if any(isinstance(n, ast.Name) and n.id == k for n in ast.walk(fd))]
        argnames = [a.arg for a in fd.args.args]
        sig = {}
        for a in argnames:
            sig[a] = OPT  # closure parameters: Optional[int] is the only shape used in the whitelist
        for k in free:
            if k in argnames:
                continue
            sig[k] = env[k][1]
        lname = f'{self.name}_{fd.name}'
        src = textwrap.dedent(ast.get_source_segment(self.src, fd))
        sub = Tr(None, sig, lname, OPT, known=self.known, src=src)
        sub.extra_params = [k for k in free if k not in argnames]
        text = sub.translate(param_order=[k for k in free if k not in argnames] + argnames, mutable_params=True)
        self.aux.append(text)
        caps = [k for k in free if k not in argnames]
        self.known[fd.name] = (lname + ''.join(' ' + env[k][0] for k in caps), [OPT] * len(argnames), OPT)

    def retval(self, v, env, pre):
        if isinstance(v, ast.Tuple):
            parts = []
            for x in v.elts:
                s, t = self.expr(x, env, pre)
                if self.rettype == 'OptSlice2':
                    parts.append('(some ' + s + ')' if t == SLICE else 'none')
                else:
                    parts.append(s)
            return '(' + ', '.join(parts) + ')'
        s, t = self.expr(v, env, pre)
        if self.rettype == INT and t in (OPT, NONE):
            return self.as_int(v, env, pre)
        if self.rettype == OPT:
            return self.coerce(s, t, OPT)
        return s

    def translate(self, param_order=None, mutable_params=False):
        for _ in range(32):
            try:
                return self._translate(param_order, mutable_params)
            except Restart:
                self.counter = 0
                self.aux = []
                self.narrowed = set()
                continue
        raise Unsupported('type inference did not converge')

    def _translate(self, param_order, mutable_params):
        env = {}
        params = []
        order = param_order or [a.arg for a in self.tree.args.args]
        for a in order:
            t = self.sig[a]
            env[a] = (mangle(a), t)
            params.append(f'({mangle(a)} : {t})')
        pre_lines = []
        assigned = set(self.assigned_names(self.tree.body))
        for a in order:
            if a in assigned:
                self.vartypes.setdefault(mangle(a), self.sig[a])
        lines, _, ret = self.block(self.tree.body, env, '  ')
        if not ret:
            raise Unsupported('function may fall off the end')
        lt = {'OptSlice2': 'Option PySlice × Option PySlice'}.get(self.rettype, self.rettype)
        hdr = f'def {self.name} ' + ' '.join(params) + f' : Except String ({lt}) := do'
        return '\n\n'.join(self.aux + ['\n'.join([hdr] + pre_lines + lines)])


def source_hash(fn):
    return hashlib.sha256(textwrap.dedent(inspect.getsource(fn)).encode()).hexdigest()[:16]
