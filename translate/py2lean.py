"""Spike: translate loop-free integer Python kernels to Lean 4 (typed, Except monad)."""
import ast, inspect, textwrap, sys, importlib

INT, OPT, BOOL, SLICE, TUP, NONE = 'Int', 'Option Int', 'Bool', 'PySlice', 'Tuple', 'None'

class Unsupported(Exception): pass
class Restart(Exception): pass

class Tr:
    def __init__(self, fn, sig, name):
        self.fn=fn; self.sig=sig; self.name=name
        self.src=textwrap.dedent(inspect.getsource(fn))
        self.tree=ast.parse(self.src).body[0]
        self.counter=0
        self.vartypes={}
    def fresh(self,p='t'):
        self.counter+=1; return f'{p}_{self.counter}'
    # ---- expressions: return (lean_expr_string, type, prelude_lines) ; expr is pure value after prelude binds
    def as_int(self, e, env, pre):
        s,t=self.expr(e,env,pre)
        if t==INT: return s
        if t==OPT:
            v=self.fresh('v'); pre.append(f'let {v} ← getI {s}'); return v
        raise Unsupported(f'need int got {t} for {ast.dump(e)}')
    def as_opt(self,e,env,pre):
        s,t=self.expr(e,env,pre)
        if t==OPT: return s
        if t==INT: return f'(some {s})'
        if t==NONE: return 'none'
        raise Unsupported(f'need opt got {t}')
    def as_bool(self,e,env,pre):
        s,t=self.expr(e,env,pre)
        if t==BOOL: return s
        raise Unsupported(f'need bool got {t}: {ast.dump(e)}')
    def expr(self,e,env,pre):
        if isinstance(e,ast.Constant):
            if e.value is None: return 'none',NONE
            if isinstance(e.value,bool): return ('true' if e.value else 'false'),BOOL
            if isinstance(e.value,int): return f'({e.value} : Int)',INT
            raise Unsupported(f'const {e.value!r}')
        if isinstance(e,ast.Name):
            if e.id in env: return env[e.id]
            raise Unsupported(f'name {e.id}')
        if isinstance(e,ast.Attribute) and e.attr in ('start','stop','step'):
            s,t=self.expr(e.value,env,pre)
            if t!=SLICE: raise Unsupported('attr on non-slice')
            return f'{s}.{e.attr}',OPT
        if isinstance(e,ast.UnaryOp):
            if isinstance(e.op,ast.USub): return f'(-{self.as_int(e.operand,env,pre)})',INT
            if isinstance(e.op,ast.Not): return f'(!{self.as_bool(e.operand,env,pre)})',BOOL
        if isinstance(e,ast.BinOp):
            if isinstance(e.op,(ast.Add,ast.Sub,ast.Mult)):
                a=self.as_int(e.left,env,pre); b=self.as_int(e.right,env,pre)
                op={ast.Add:'+',ast.Sub:'-',ast.Mult:'*'}[type(e.op)]
                return f'({a} {op} {b})',INT
            raise Unsupported(f'binop {ast.dump(e.op)} outside int()/floor/ceil')
        if isinstance(e,ast.BoolOp):
            # short-circuit: operand k is only evaluated under the guard of operands < k
            parts=[]
            for v in e.values:
                p=[]; s=self.as_bool(v,env,p); parts.append((p,s))
            isand=isinstance(e.op,ast.And)
            def mk(i,ind):
                p,s=parts[i]
                body=[ind+l for l in p]
                if i==len(parts)-1:
                    return body+[ind+f'pure {s}']
                inner=mk(i+1,ind+'  ')
                if isand:
                    return body+[ind+f'if {s} then do']+inner+[ind+'else pure false']
                else:
                    return body+[ind+f'if {s} then pure true else do']+inner
            v=self.fresh('b')
            blk=mk(0,'    ')
            pre.append(f'let {v} ← (do\n'+'\n'.join(blk)+')')
            return v,BOOL
        if isinstance(e,ast.Compare):
            items=[e.left]+e.comparators; res=[]
            for l,op,r in zip(items,e.ops,items[1:]):
                if isinstance(op,(ast.Is,ast.IsNot)) and isinstance(r,ast.Constant) and r.value is None:
                    s,t=self.expr(l,env,pre)
                    if t==OPT: res.append(f'{s}.isNone' if isinstance(op,ast.Is) else f'{s}.isSome')
                    elif t==INT: res.append('false' if isinstance(op,ast.Is) else 'true')
                    elif t==NONE: res.append('true' if isinstance(op,ast.Is) else 'false')
                    else: raise Unsupported('is None on '+t)
                    continue
                if isinstance(op,(ast.In,ast.NotIn)) and isinstance(r,(ast.List,ast.Tuple)):
                    a=self.as_int(l,env,pre); alts=' || '.join(f'{a} == {self.as_int(x,env,pre)}' for x in r.elts)
                    res.append(f'({alts})' if isinstance(op,ast.In) else f'(!({alts}))'); continue
                a=self.as_int(l,env,pre); b=self.as_int(r,env,pre)
                o={ast.Lt:'<',ast.LtE:'<=',ast.Gt:'>',ast.GtE:'>=',ast.Eq:'==',ast.NotEq:'!='}[type(op)]
                res.append(f'decide ({a} {o} {b})' if o in('<','<=','>','>=') else f'({a} {o} {b})')
            return '('+' && '.join(res)+')',BOOL
        if isinstance(e,ast.IfExp):
            c=self.as_bool(e.test,env,pre)
            p1=[];p2=[]
            s1,t1=self.expr(e.body,env,p1); s2,t2=self.expr(e.orelse,env,p2)
            if t1==t2==INT: jt=INT
            elif {t1,t2}<= {INT,OPT,NONE}: jt=OPT; s1=self.coerce(s1,t1,OPT); s2=self.coerce(s2,t2,OPT)
            else: raise Unsupported('ifexp types')
            def blk(p,s): return f'pure {s}' if not p else 'do\n'+'\n'.join('      '+l for l in p)+f'\n      pure {s}'
            v=self.fresh('c'); pre.append(f'let {v} ← (if {c} then {blk(p1,s1)} else {blk(p2,s2)})')
            return v,jt
        if isinstance(e,ast.Call):
            f=self.callname(e.func)
            if f=='slice' and len(e.args)==3:
                a,b,c=(self.as_opt(x,env,pre) for x in e.args)
                return f'(PySlice.mk {a} {b} {c})',SLICE
            if f in('min','max') and len(e.args)==2:
                a=self.as_int(e.args[0],env,pre); b=self.as_int(e.args[1],env,pre); return f'({f} {a} {b})',INT
            if f=='abs': return f'(Int.natAbs {self.as_int(e.args[0],env,pre)} : Int)',INT
            if f=='numpy.sign': return f'(Int.sign {self.as_int(e.args[0],env,pre)})',INT
            if f=='int' and len(e.args)==1:
                inner=e.args[0]
                # int(numpy.floor(a/b)) | int(numpy.ceil(a/b)) | int(a/b) | int(a/float(b)) | int(floor(..) + k)
                return self.intcast(inner,env,pre),INT
            if f=='_reverse_slice':
                a,t=self.expr(e.args[0],env,pre); v=self.fresh('r'); pre.append(f'let {v} ← reverse_slice {a}'); return v,SLICE
            raise Unsupported(f'call {f}')
        raise Unsupported(ast.dump(e))
    def coerce(self,s,t,to):
        if t==to: return s
        if to==OPT and t==INT: return f'(some {s})'
        if to==OPT and t==NONE: return 'none'
        raise Unsupported('coerce')
    def callname(self,f):
        if isinstance(f,ast.Name): return f.id
        if isinstance(f,ast.Attribute) and isinstance(f.value,ast.Name): return f'{f.value.id}.{f.attr}'
        raise Unsupported('callee')
    def divparts(self,e,env,pre):
        if isinstance(e,ast.BinOp) and isinstance(e.op,ast.Div):
            den=e.right
            if isinstance(den,ast.Call) and self.callname(den.func)=='float': den=den.args[0]
            return self.as_int(e.left,env,pre), self.as_int(den,env,pre)
        raise Unsupported('expected a/b inside int()')
    def intcast(self,inner,env,pre):
        if isinstance(inner,ast.BinOp) and isinstance(inner.op,(ast.Add,ast.Sub)):
            # int(floor(x) + k)
            l=self.intcast(inner.left,env,pre); r=self.as_int(inner.right,env,pre)
            return f'({l} {"+" if isinstance(inner.op,ast.Add) else "-"} {r})'
        if isinstance(inner,ast.Call) and self.callname(inner.func) in('numpy.floor','numpy.ceil'):
            a,b=self.divparts(inner.args[0],env,pre)
            v=self.fresh('q'); pre.append(f'let {v} ← {"floorDiv" if "floor" in self.callname(inner.func) else "ceilDiv"} {a} {b}')
            return v
        a,b=self.divparts(inner,env,pre)
        v=self.fresh('q'); pre.append(f'let {v} ← truncDiv {a} {b}'); return v
    # ---- statements -> list of lines, given continuation handled by caller. We compile to a do-block with early return via Except + explicit structure:
    def block(self,stmts,env,ind):
        """returns (lines, env_out, returns_always)"""
        lines=[]; env=dict(env)
        for i,st in enumerate(stmts):
            if isinstance(st,ast.Expr) and isinstance(st.value,ast.Constant): continue  # docstring
            if isinstance(st,ast.Return):
                pre=[]; s=self.retval(st.value,env,pre)
                lines+= [ind+l for l in pre]+[ind+f'return {s}']; return lines,env,True
            if isinstance(st,ast.Raise):
                lines.append(ind+f'throw "{self.excname(st)}"'); return lines,env,True
            if isinstance(st,ast.Assign) and len(st.targets)==1 and isinstance(st.targets[0],ast.Name):
                pre=[]; s,t=self.expr(st.value,env,pre); n=st.targets[0].id
                want=self.vartypes.get(n,t)
                if want!=t:
                    if want==OPT and t in (INT,NONE): s=self.coerce(s,t,OPT); t=OPT
                    elif {want,t}<={INT,OPT,NONE}:
                        self.vartypes[n]=OPT; raise Restart()
                    else: raise Unsupported(f'retype {n}: {want} vs {t}')
                self.vartypes.setdefault(n,t)
                lines+= [ind+l for l in pre]+[ind+(f'let mut {n} : {t} := {s}' if n not in env else f'{n} := {s}')]
                env[n]=(n,t); continue
            if isinstance(st,ast.If):
                pre=[]; c=self.as_bool(st.test,env,pre)
                # pre-declare variables assigned in branches but not yet in env, with joined type
                l1,e1,r1=self.block(st.body,env,ind+'  ')
                l2,e2,r2=self.block(st.orelse,env,ind+'  ') if st.orelse else ([],env,False)
                new=[k for k in list(e1)+list(e2) if k not in env]
                decl=[]
                for k in dict.fromkeys(new):
                    t1=e1.get(k,(None,None))[1]; t2=e2.get(k,(None,None))[1]
                    ts={t for t in (t1,t2) if t}
                    jt=self.vartypes.get(k) or (INT if ts=={INT} else (OPT if ts<= {INT,OPT,NONE} else (SLICE if ts=={SLICE} else None)))
                    if jt is None: raise Unsupported(f'join {k} {ts}')
                    default={'Int':'0','Option Int':'none','PySlice':'default'}[jt]
                    decl.append(ind+f'let mut {k} : {jt} := {default}')
                    env[k]=(k,jt)
                if decl:
                    l1,e1,r1=self.block(st.body,env,ind+'  ')
                    l2,e2,r2=self.block(st.orelse,env,ind+'  ') if st.orelse else ([],env,False)
                lines+= [ind+l for l in pre]+decl
                lines.append(ind+f'if {c} then'); lines+= l1 or [ind+'  pure ()']
                if st.orelse:
                    lines.append(ind+'else'); lines+= l2 or [ind+'  pure ()']
                for k in env:
                    ta=e1.get(k,env[k])[1]; tb=e2.get(k,env[k])[1]
                    if ta!=env[k][1] or tb!=env[k][1]:
                        raise Unsupported(f'branch retype {k}')
                if r1 and r2 and st.orelse: return lines,env,True
                continue
            raise Unsupported(ast.dump(st)[:80])
        return lines,env,False
    def excname(self,st):
        e=st.exc
        if isinstance(e,ast.Call): e=e.func
        return e.id if isinstance(e,ast.Name) else 'Exception'
    def retval(self,v,env,pre):
        if isinstance(v,ast.Tuple):
            parts=[]
            for x in v.elts:
                s,t=self.expr(x,env,pre)
                if self.rettype=='OptSlice2': parts.append('(some '+s+')' if t==SLICE else 'none')
                else: parts.append(s)
            return '('+', '.join(parts)+')'
        s,t=self.expr(v,env,pre)
        if self.rettype==INT and t==OPT:
            return self.as_int(v,env,pre)
        return s
    def translate(self,rettype):
        while True:
            try:
                return self._translate(rettype)
            except Restart:
                self.counter=0
                continue
    def _translate(self,rettype):
        self.rettype=rettype
        env={}
        params=[]
        for a in self.tree.args.args:
            t=self.sig[a.arg]; env[a.arg]=(a.arg,t); params.append(f'({a.arg} : {t})')
        lines,_,ret=self.block(self.tree.body,env,'  ')
        lt={'OptSlice2':'Option PySlice × Option PySlice'}.get(rettype,rettype)
        hdr=f'def {self.name} '+' '.join(params)+f' : Except String ({lt}) := do'
        return '\n'.join([hdr]+lines)

PRELUDE='''-- generated: do not edit
structure PySlice where
  start : Option Int
  stop : Option Int
  step : Option Int
deriving Repr, BEq, DecidableEq, Inhabited

def getI : Option Int → Except String Int
  | some v => pure v
  | none => throw "TypeError"
def floorDiv (a b : Int) : Except String Int := if b == 0 then throw "ZeroDivisionError" else pure (Int.fdiv a b)
def ceilDiv (a b : Int) : Except String Int := if b == 0 then throw "ZeroDivisionError" else pure (-(Int.fdiv (-a) b))
def truncDiv (a b : Int) : Except String Int := if b == 0 then throw "ZeroDivisionError" else pure (Int.tdiv a b)
namespace Gen
'''
if __name__=='__main__':
    from sarpy.io.general import format_function as ff, data_segment as ds, slice_parsing as sp
    out=[PRELUDE]
    jobs=[(ff.reformat_slice,{'sl_in':SLICE,'limit_in':INT,'mirror':BOOL},'reformat_slice',SLICE),
          (sp.get_slice_result_size,{'slice_in':SLICE},'get_slice_result_size',INT),
          (ds._reverse_slice,{'slice_in':SLICE},'reverse_slice',SLICE),
          (ds._find_slice_overlap,{'slice_in':SLICE,'ref_slice':SLICE},'find_slice_overlap','OptSlice2')]
    for fn,sig,name,rt in jobs:
        try:
            out.append(Tr(fn,sig,name).translate(rt)); out.append('')
        except Unsupported as e:
            out.append(f'-- UNSUPPORTED {name}: {e}\n'); print('UNSUPPORTED',name,e,file=sys.stderr)
    out.append('end Gen')
    open('Gen.lean','w').write('\n'.join(out))
