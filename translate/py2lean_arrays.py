"""py2lean_arrays: the loop translator (py2lean_loops.TrL) extended to numpy integer arrays of one and two dimensions.

Arrays are Lean lists with VALUE semantics (`IntArr = List Int`, `IntArr2 = List (List Int)` rows; prelude Spec/PyArray.lean).  numpy's
in-place operators mutate the array object that every alias shares, so an in-place update is only admitted - and then read as
REBINDING the name - when the syntactic ALIASING DISCIPLINE holds for that name in the function being translated:

  1. the name is not a parameter (a parameter array belongs to the caller);
  2. every plain binding `x = rhs` of the name has a fresh array on the right: a call of numpy.copy / numpy.array / numpy.zeros /
     numpy.power / numpy.arange, or an arithmetic expression (never a bare name, attribute or slice - a slice is a VIEW);
  3. the name never escapes: each read of `x` is an operand of arithmetic / a comparison, the base of `x[...]`, `x.size`, `x.shape`, an
     argument of a pure numpy function, an index / mask, or lies inside a `return` expression; `y = x`, `y = x[a:b]`, `d[k] = x`,
     `lst.append(x)`, `(x, ...)`, `f(x)` for an unknown f are refused.
  Loop bodies / tests synthesised by the loop translator get the names approved in the enclosing function handed down (rule 3 is
  re-checked on the body).  Anything else raises `Unsupported` (fail closed) - e.g. `origin = loc[k]; origin += v`.

Supported on arrays (int elements):
  numpy.copy(x), numpy.array(x), numpy.array([e, ...]), numpy.zeros(k) / numpy.zeros((k,)); x.size, x.shape[0], x.shape[1]; x[i];
  x[a:b] (unit step, CPython clamping, open ends), m[a:b, :], m[:, a:b], v[:, numpy.newaxis] (column vector);
  x[a:b] = e, x[a:b] op= e, x op= e, x = e (op in + - *); numpy.arange(n); numpy.power(c, arr) for an int c;
  x op y elementwise for equal shapes (+ - *), c * x, x * c; column * matrix, matrix * row vector (the two broadcasts the kernels use);
  x != c (boolean array), numpy.any(mask), x[mask], numpy.amax(x).
  Every other pairing of unequal shapes is an error value ("ValueError" where numpy raises, "BroadcastRefused" where numpy would
  stretch a length-1 axis - not modelled)."""
import ast
import os
import sys

sys.path.insert(0, os.path.dirname(os.path.abspath(__file__)))
from py2lean import Unsupported, INT, OPT, BOOL, NONE
from py2lean_loops import TrL, is_list, is_tuple

ARR, ARR2, COL, BARR = 'IntArr', 'IntArr2', 'IntCol', 'BoolArr'
FRESH = {'numpy.copy', 'numpy.array', 'numpy.zeros', 'numpy.power', 'numpy.arange', 'numpy.ones', 'numpy.empty'}
PURE = FRESH | {'numpy.any', 'numpy.all', 'numpy.amax', 'numpy.amin', 'numpy.sum', 'len'}
OPS = {ast.Add: '+', ast.Sub: '-', ast.Mult: '*'}


def _fname(f):
    if isinstance(f, ast.Name):
        return f.id
    if isinstance(f, ast.Attribute) and isinstance(f.value, ast.Name):
        return f'{f.value.id}.{f.attr}'
    return None


class TrA(TrL):
    def __init__(self, fn, sig, name, rettype, known=None, src=None, fuel=None, inherited_ok=None):
        TrL.__init__(self, fn, sig, name, rettype, known=known, src=src, fuel=fuel)
        self.inherited_ok = set(inherited_ok or ())
        self.orig = ast.parse(self.src).body[0]           # the function as prepared, before the loops were lifted
        self._ok_cache = {}
        self.refusals = {}

    def _sub_kwargs(self, params):
        return {'inherited_ok': {p for p in params if self.inplace_ok(p)[0]}}

    # ------------------------------------------------------------------ the aliasing discipline
    def inplace_ok(self, x):
        if x not in self._ok_cache:
            self._ok_cache[x] = self._inplace_ok(x)
        return self._ok_cache[x]

    def _inplace_ok(self, x):
        params = {a.arg for a in self.orig.args.args}
        if x in params and x not in self.inherited_ok:
            return False, f'{x} is a parameter: the array belongs to the caller'
        parent = {}
        for n in ast.walk(self.orig):
            for c in ast.iter_child_nodes(n):
                parent[c] = n
        for n in ast.walk(self.orig):
            if isinstance(n, ast.Assign) and any(isinstance(t, ast.Name) and t.id == x for t in n.targets):
                v = n.value
                if not (isinstance(v, (ast.BinOp, ast.UnaryOp)) or (isinstance(v, ast.Call) and _fname(v.func) in FRESH)):
                    return False, f'`{ast.unparse(n)[:60]}` does not bind {x} to a fresh array'
        for n in ast.walk(self.orig):
            if not (isinstance(n, ast.Name) and n.id == x and isinstance(n.ctx, ast.Load)):
                continue
            node = n
            while True:
                p = parent.get(node)
                anc, in_ret = p, False
                while anc is not None:
                    if isinstance(anc, ast.Return):
                        in_ret = True
                    anc = parent.get(anc)
                if in_ret:
                    break
                if isinstance(p, ast.Attribute):
                    break
                if isinstance(p, ast.Subscript):
                    if p.value is node:
                        if isinstance(p.ctx, ast.Store):
                            break
                        node = p        # a view of x: judged like x itself by what is done with it
                        continue
                    break               # x used as an index / mask
                if isinstance(p, (ast.BinOp, ast.UnaryOp, ast.Compare, ast.BoolOp)):
                    break
                if isinstance(p, ast.Call) and node in p.args and _fname(p.func) in PURE:
                    break
                if isinstance(p, ast.AugAssign) and p.value is node:
                    break
                what = ast.unparse(p)[:70] if p is not None else '?'
                return False, f'{x} (or a view of it) escapes in `{what}`'
        return True, ''

    def _need_ok(self, x, what):
        ok, why = self.inplace_ok(x)
        if not ok:
            raise Unsupported(f'in-place {what} of the array {x} refused: {why} (arrays have value semantics in the translation; an alias would see the update)')

    # ------------------------------------------------------------------ expressions
    def _bound(self, e, env, pre):
        return 'none' if e is None else f'(some {self.as_int(e, env, pre)})'

    def _slice_parts(self, sl, ndim):
        """('rows'|'cols'|'newaxis'|'1d', Slice)"""
        if isinstance(sl, ast.Slice):
            return '1d', sl
        if isinstance(sl, ast.Tuple) and len(sl.elts) == 2:
            a, b = sl.elts
            full = lambda s: isinstance(s, ast.Slice) and s.lower is None and s.upper is None and s.step is None
            if full(a) and isinstance(b, ast.Attribute) and ast.unparse(b) == 'numpy.newaxis':
                return 'newaxis', None
            if isinstance(a, ast.Slice) and full(b):
                return 'rows', a
            if full(a) and isinstance(b, ast.Slice):
                return 'cols', b
        raise Unsupported('array subscript ' + ast.unparse(sl)[:40])

    def _read_slice(self, s0, t0, sl, env, pre):
        kind, part = self._slice_parts(sl, 2 if t0 == ARR2 else 1)
        if kind == 'newaxis':
            if t0 != ARR:
                raise Unsupported(f'[:, numpy.newaxis] on {t0}')
            return s0, COL
        if part.step is not None:
            raise Unsupported('strided array slice')
        a, b = self._bound(part.lower, env, pre), self._bound(part.upper, env, pre)
        if t0 == ARR and kind == '1d':
            return f'(arrSlice {s0} {a} {b})', ARR
        if t0 == ARR2 and kind in ('rows', '1d'):
            return f'(arr2SliceRows {s0} {a} {b})', ARR2
        if t0 == ARR2 and kind == 'cols':
            return f'(arr2SliceCols {s0} {a} {b})', ARR2
        raise Unsupported(f'slice {kind} of {t0}')

    def _typeof(self, e, env):
        """type of an expression without committing its prelude lines"""
        cnt = self.counter
        try:
            return self.expr(e, env, [])[1]
        except Unsupported:
            return None
        finally:
            self.counter = cnt

    def expr(self, e, env, pre):
        if isinstance(e, ast.Call):
            f = _fname(e.func)
            if f in ('numpy.copy', 'numpy.array') and len(e.args) == 1 and all(k.arg == 'dtype' for k in e.keywords):
                if isinstance(e.args[0], ast.List):
                    parts = [self.as_int(x, env, pre) for x in e.args[0].elts]
                    return '([' + ', '.join(parts) + '] : IntArr)', ARR
                s, t = self.expr(e.args[0], env, pre)
                if t in (ARR, ARR2):
                    return s, t
                raise Unsupported(f'{f} of {t}')
            if f == 'numpy.zeros' and len(e.args) == 1 and all(k.arg == 'dtype' for k in e.keywords):
                a = e.args[0].elts[0] if isinstance(e.args[0], ast.Tuple) and len(e.args[0].elts) == 1 else e.args[0]
                return f'(List.replicate (Int.toNat {self.as_int(a, env, pre)}) (0 : Int) : IntArr)', ARR
            if f == 'numpy.arange' and len(e.args) == 1 and not e.keywords:
                return f'(arange {self.as_int(e.args[0], env, pre)})', ARR
            if f == 'numpy.power' and len(e.args) == 2 and not e.keywords:
                c = self.as_int(e.args[0], env, pre)
                s, t = self.expr(e.args[1], env, pre)
                if t != ARR:
                    raise Unsupported(f'numpy.power(int, {t})')
                v = self.fresh('a')
                pre.append(f'let {v} ← arrPow {c} {s}')
                return v, ARR
            if f == 'numpy.any' and len(e.args) == 1:
                s, t = self.expr(e.args[0], env, pre)
                if t != BARR:
                    raise Unsupported(f'numpy.any of {t}')
                return f'({s}.any id)', BOOL
            if f == 'numpy.amax' and len(e.args) == 1:
                s, t = self.expr(e.args[0], env, pre)
                if t != ARR:
                    raise Unsupported(f'numpy.amax of {t}')
                v = self.fresh('m')
                pre.append(f'let {v} ← arrMax {s}')
                return v, INT
            if f == '__setslice__':
                view, val = e.args
                x = view.value.id
                if x not in env or env[x][1] not in (ARR, ARR2):
                    raise Unsupported(f'slice assignment on {env.get(x, (None, None))[1]}')
                self._need_ok(x, 'slice update')
                s0, t0 = env[x]
                kind, part = self._slice_parts(view.slice, 2 if t0 == ARR2 else 1)
                if kind == 'newaxis' or part.step is not None:
                    raise Unsupported('slice assignment target')
                a, b = self._bound(part.lower, env, pre), self._bound(part.upper, env, pre)
                sv, tv = self.expr(val, env, pre)
                v = self.fresh('a')
                if t0 == ARR and tv == ARR:
                    pre.append(f'let {v} ← arrSetSlice {s0} {a} {b} {sv}')
                elif t0 == ARR and tv == INT:
                    pre.append(f'let {v} : IntArr := arrFillSlice {s0} {a} {b} {sv}')
                elif t0 == ARR2 and tv == ARR2 and kind in ('rows', '1d'):
                    pre.append(f'let {v} ← arr2SetRows {s0} {a} {b} {sv}')
                elif t0 == ARR2 and tv == ARR2 and kind == 'cols':
                    pre.append(f'let {v} ← arr2SetCols {s0} {a} {b} {sv}')
                else:
                    raise Unsupported(f'assignment of {tv} to a {kind} slice of {t0}')
                return v, t0
            if f == '__aug__' and isinstance(e.args[0], ast.Name) and env.get(e.args[0].id, (None, None))[1] in (ARR, ARR2):
                self._need_ok(e.args[0].id, f'`{e.args[2].value}=`')
                op = {'Add': ast.Add, 'Sub': ast.Sub, 'Mult': ast.Mult}.get(e.args[2].value)
                if op is None:
                    raise Unsupported('augmented assignment ' + e.args[2].value + ' on an array')
                s, t = self.expr(ast.BinOp(left=e.args[0], op=op(), right=e.args[1]), env, pre)
                if t != env[e.args[0].id][1]:
                    raise Unsupported(f'in-place update changes the type {env[e.args[0].id][1]} -> {t}')
                return s, t
        if isinstance(e, ast.Attribute) and e.attr == 'size':
            t = self._typeof(e.value, env)
            if t == ARR:
                s, _ = self.expr(e.value, env, pre)
                return f'({s}.length : Int)', INT
        if isinstance(e, ast.Subscript) and isinstance(e.value, ast.Attribute) and e.value.attr == 'shape' \
                and isinstance(e.slice, ast.Constant) and e.slice.value in (0, 1):
            t = self._typeof(e.value.value, env)
            if t in (ARR, ARR2):
                s, _ = self.expr(e.value.value, env, pre)
                if t == ARR and e.slice.value == 0:
                    return f'({s}.length : Int)', INT
                if t == ARR2:
                    return (f'(arr2Rows {s})' if e.slice.value == 0 else f'(arr2Cols {s})'), INT
        if isinstance(e, ast.Subscript):
            t0 = self._typeof(e.value, env)
            if t0 in (ARR, ARR2):
                if isinstance(e.slice, (ast.Slice, ast.Tuple)):
                    s0, _ = self.expr(e.value, env, pre)
                    return self._read_slice(s0, t0, e.slice, env, pre)
                ti = self._typeof(e.slice, env)
                s0, _ = self.expr(e.value, env, pre)
                if ti == BARR and t0 == ARR:
                    m, _ = self.expr(e.slice, env, pre)
                    v = self.fresh('a')
                    pre.append(f'let {v} ← arrMask {s0} {m}')
                    return v, ARR
                if ti == INT and t0 == ARR:
                    k = self.as_int(e.slice, env, pre)
                    v = self.fresh('x')
                    pre.append(f'let {v} ← pyIndex {s0} {k}')
                    return v, INT
                raise Unsupported(f'{t0}[{ti}]')
        if isinstance(e, ast.Compare) and len(e.ops) == 1 and isinstance(e.ops[0], ast.NotEq) and self._typeof(e.left, env) == ARR:
            s, _ = self.expr(e.left, env, pre)
            return f'(arrNe {s} {self.as_int(e.comparators[0], env, pre)})', BARR
        if isinstance(e, ast.BinOp) and type(e.op) in OPS:
            tl, tr = self._typeof(e.left, env), self._typeof(e.right, env)
            if {tl, tr} & {ARR, ARR2, COL}:
                op = OPS[type(e.op)]
                a, _ = self.expr(e.left, env, pre)
                b, _ = self.expr(e.right, env, pre)
                v = self.fresh('a')
                if (tl, tr) == (ARR, ARR):
                    pre.append(f'let {v} ← arrZip (fun x y => x {op} y) {a} {b}')
                    return v, ARR
                if (tl, tr) == (ARR2, ARR2):
                    pre.append(f'let {v} ← arr2Zip (fun x y => x {op} y) {a} {b}')
                    return v, ARR2
                if op == '*' and (tl, tr) in ((INT, ARR), (ARR, INT)):
                    c, x = (a, b) if tl == INT else (b, a)
                    return f'(arrScale {c} {x})', ARR
                if op == '*' and (tl, tr) in ((INT, ARR2), (ARR2, INT)):
                    c, x = (a, b) if tl == INT else (b, a)
                    return f'(arr2Scale {c} {x})', ARR2
                if op == '*' and (tl, tr) == (COL, ARR2):
                    pre.append(f'let {v} ← arr2MulCol {a} {b}')
                    return v, ARR2
                if op == '*' and (tl, tr) == (ARR2, ARR):
                    pre.append(f'let {v} ← arr2MulRow {a} {b}')
                    return v, ARR2
                raise Unsupported(f'{tl} {op} {tr} (broadcast not modelled)')
        return TrL.expr(self, e, env, pre)
