"""Regenerate lean/SarpyModel/Gen/TreTables.lean (+ TreTablesDefs.lean next to it): one format description
(Spec.FieldFmt2.Fmt) per registered TRE, read FROM THE CURRENT SOURCE of sarpy/io/general/nitf_elements/tres/**/*.py.

Nothing is imported from the TRE modules: every module is parsed with `ast` and the `__init__` bodies of the
`TREElement` subclasses are executed SYMBOLICALLY:

  self.add_field(name, 'd', w, value)                 -> int w              (w must be a literal)
  self.add_field(name, 's', <len>, value)             -> tstr <len>         (text, stripped on both sides when stored)
  self.add_field(name, 'b', <len>, value)             -> raw <len>
  self.add_field(name, 'ieee754_binary32', 4, value)  -> raw 4              (opaque; see NOTES_TRE: signalling NaNs)
  self.add_loop(name, <count>, Child, value, *args)   -> loop <count> <description of Child with its parameters bound to args>
  if / elif / else                                    -> every field added below carries the path condition (`cond`)
  for v in range(c..) / [consts]: ...                 -> unrolled (field names are evaluated: 'IF_PATCH_{}{}'.format(comp, part))
  for i in range(<count>): self.add_field(..)         -> loop <count> of the fields of the body (attributes named by i)
  local = <expression>                                -> symbolic local
  if <test>: raise ...                                -> a refusal guard, no layout effect (recorded under 'guards')

  <len> / <count>:  literals, self.X ('d' field -> var; 's' field under int() -> dec; 'b' field under int() -> dec, under
                    struct.unpack('>I', ..)[0] / int.from_bytes(.., 'big') -> be), + - * of those, / or // by a literal (floor),
                    int(..), len(value) (payload length = parameter 1), self._bytes_length (symbolic sum of what was added so far),
                    parameters of the child class, self.method() and module helper functions (inlined)
  <test>:           self.X == / != / in / not in constants (with .strip() / .lower()), self.X > 0, int(self.X) > 0,
                    <be reading> & mask, <helper result> is (not) None, and / or / not

`self.X` is resolved among the fields ALREADY ADDED TO THE SAME OBJECT (that is what Python does).  If X is not one of them
but a field of an enclosing element, the description uses that one (the layout the code evidently intends) and the place
is recorded under 'defects' (kind 'unbound-attribute'): in Python the statement raises AttributeError, the TRE falls back to
UnknownTRE.  The harness expects exactly that behaviour for payloads that reach the statement.

Anything else is NOT translated: the TRE is listed under 'untranslated' with the construct (never silently skipped).

Field ids: 1 is the parameter CEL (payload length, given by the envelope); fields are numbered 2.. in order of appearance.

generate(path) -> {'tres': {name: {...}}, 'dispatch': {...}, 'untranslated': {...}, 'defects': [...], 'snapshot_diff': {...}, ...}
`python translate/tables_tre.py --snapshot` rewrites translate/tre_snapshot.json (the pinned layouts the harness compares with).
"""
import ast
import hashlib
import itertools
import json
import os
import struct
import sys

HERE = os.path.dirname(os.path.abspath(__file__))
SNAPSHOT = os.path.join(HERE, 'tre_snapshot.json')
CEL = 1          # parameter id: payload length
# methods of TREExtension / TREElement whose override changes the byte codec (other methods, e.g. CMETAA.get_scp, do not)
CODEC_METHODS = {'__init__', 'from_bytes', 'to_bytes', 'get_bytes_length', 'minimum_length', 'EL', 'DATA', 'TAG', 'add_field', 'add_loop',
                 '_attribute_to_bytes', '__new__', '__getattr__', '__getattribute__', '__setattr__'}
SKIP_FILES = {'tre_elements.py', 'registration.py', '__init__.py'}


class Unsupported(Exception):
    def __init__(self, what, node=None):
        self.what = what
        self.lineno = getattr(node, 'lineno', None)
        super().__init__(what + (f' (line {self.lineno})' if self.lineno else ''))


def tres_dir():
    repo = os.environ.get('SARPY_REPO')
    if repo:
        d = os.path.join(repo, 'sarpy', 'io', 'general', 'nitf_elements', 'tres')
        if os.path.isdir(d):
            return d
    import sarpy
    return os.path.join(os.path.dirname(sarpy.__file__), 'io', 'general', 'nitf_elements', 'tres')


# ---------------------------------------------------------------------------------------------- module model

class Module:
    def __init__(self, path, rel):
        self.path = path
        self.rel = rel
        self.src = open(path, 'rb').read()
        self.tree = ast.parse(self.src)
        self.elements = {}      # TREElement subclasses: name -> ClassDef
        self.extensions = {}    # TREExtension subclasses: name -> ClassDef
        self.funcs = {}
        for n in self.tree.body:
            if isinstance(n, ast.FunctionDef):
                self.funcs[n.name] = n
            elif isinstance(n, ast.ClassDef):
                bases = [b.id if isinstance(b, ast.Name) else getattr(b, 'attr', None) for b in n.bases]
                if 'TREElement' in bases:
                    self.elements[n.name] = n
                elif 'TREExtension' in bases:
                    self.extensions[n.name] = n
                else:
                    # a subclass of a local element / extension class
                    for b in bases:
                        if b in self.elements:
                            self.elements[n.name] = n
                        elif b in self.extensions:
                            self.extensions[n.name] = n


def class_attr(cdef, name):
    for m in cdef.body:
        if isinstance(m, ast.Assign) and len(m.targets) == 1 and isinstance(m.targets[0], ast.Name) and m.targets[0].id == name:
            return m.value
    return None


def method(cdef, name):
    for m in cdef.body:
        if isinstance(m, ast.FunctionDef) and m.name == name:
            return m
    return None


# ---------------------------------------------------------------------------------------------- expression trees (python side)

def e_lit(n):
    return ['lit', int(n)]


def e_add(a, b):
    if a[0] == 'lit' and b[0] == 'lit':
        return e_lit(a[1] + b[1])
    if a == ['lit', 0]:
        return b
    if b == ['lit', 0]:
        return a
    return ['add', a, b]


def e_mul(a, b):
    if a[0] == 'lit' and b[0] == 'lit':
        return e_lit(a[1] * b[1])
    return ['mul', a, b]


def c_and(a, b):
    if a is None:
        return b
    if b is None:
        return a
    return ['and', a, b]


def c_not(a):
    return ['not', a]


def c_or(a, b):
    return ['not', ['and', ['not', a], ['not', b]]]


def case_variants(s):
    letters = [i for i, ch in enumerate(s) if ch.lower() != ch.upper()]
    if len(letters) > 6:
        raise Unsupported(f'.lower() comparison with {s!r}: too many case variants')
    out = []
    for combo in itertools.product([False, True], repeat=len(letters)):
        t = list(s.lower())
        for i, up in zip(letters, combo):
            if up:
                t[i] = t[i].upper()
        out.append(''.join(t))
    return sorted(set(out))


# ---------------------------------------------------------------------------------------------- symbolic execution of one element class

class Scope:
    """the fields added so far to one element object"""

    def __init__(self, cname, outer):
        self.cname = cname
        self.outer = outer          # enclosing Scope or None
        self.bound = {}             # attr -> {'id', 'typ', 'width'}
        self.locals = {}            # local / parameter name -> symbolic value
        self.consumed = e_lit(0)    # symbolic self._bytes_length (None = not expressible)
        self.same_object = False    # a `for i in range(n)` body: the attributes land on the enclosing object


class Translator:
    def __init__(self, mod, tre_name):
        self.mod = mod
        self.tre = tre_name
        self.next_id = CEL + 1
        self.defects = []
        self.guards = []
        self.notes = []
        self.names = {}             # id -> attribute name (documentation)
        self.depth = 0
        self.cur_path = None        # path condition of the statement being translated

    # ---- values: ('int', id) 'd' field | ('str', id, flags) 's' field | ('bytes', id) 'b' field | ('num', expr) | ('const', v)
    #              ('opt', [(cond, expr)...]) helper result that may be None | ('mask', id, const)

    def lookup_attr(self, scope, attr, node):
        if attr in scope.bound:
            f = scope.bound[attr]
            if f.get('path') is not None and not path_implies(self.cur_path, f['path']):
                raise Unsupported(f'self.{attr} is read outside the condition under which it is added', node)
            return f
        s = scope.outer
        while scope.same_object and s is not None:
            if attr in s.bound:
                return s.bound[attr]
            scope, s = s, s.outer
        while s is not None:
            if attr in s.bound:
                if self.cur_path is not None:
                    raise Unsupported(f'self.{attr} (a field of an enclosing element) is read under a condition', node)
                self.defects.append({'kind': 'unbound-attribute', 'tre': self.tre, 'class': scope.cname, 'attr': attr, 'line': node.lineno,
                                     'resolved_in': s.cname, 'key': f'{self.tre}:{scope.cname}.{attr}-read-from-enclosing-element',
                                     'what': f'{scope.cname}.__init__ reads self.{attr}, which is a field of the enclosing {s.cname}, not of this element: '
                                             f'AttributeError at run time (the TRE is returned as UnknownTRE)'})
                return s.bound[attr]
            s = s.outer
        raise Unsupported(f'self.{attr} is read before any add_field defines it', node)

    def sym(self, node, scope):
        if isinstance(node, ast.Constant):
            return ('const', node.value)
        if isinstance(node, ast.Name):
            if node.id in scope.locals:
                return scope.locals[node.id]
            raise Unsupported(f'name {node.id}', node)
        if isinstance(node, ast.Attribute) and isinstance(node.value, ast.Name) and node.value.id == 'self':
            if node.attr == '_bytes_length':
                if scope.consumed is None:
                    raise Unsupported('self._bytes_length after a part whose length is not expressible', node)
                return ('num', scope.consumed)
            f = self.lookup_attr(scope, node.attr, node)
            if f['typ'] == 'd':
                return ('int', f['id'])
            if f['typ'] == 's':
                return ('str', f['id'], frozenset())
            if f['typ'] == 'b':
                return ('bytes', f['id'], f.get('width'))
            raise Unsupported(f'self.{node.attr} of kind {f["typ"]} used in an expression', node)
        if isinstance(node, ast.Call):
            fn = node.func
            # x.strip() / x.lower() / x.upper()
            if isinstance(fn, ast.Attribute) and fn.attr in ('strip', 'lower') and not node.args:
                v = self.sym(fn.value, scope)
                if v[0] == 'str':
                    return ('str', v[1], v[2] | {fn.attr})
                raise Unsupported(f'.{fn.attr}() of a non-text value', node)
            if isinstance(fn, ast.Name) and fn.id == 'int' and len(node.args) == 1:
                v = self.sym(node.args[0], scope)
                if v[0] in ('str', 'bytes'):
                    return ('num', ['dec', v[1]])
                if v[0] == 'int':
                    return ('num', ['var', v[1]])
                if v[0] == 'num':
                    return v
                if v[0] == 'const' and isinstance(v[1], int):
                    return ('num', e_lit(v[1]))
                raise Unsupported('int() of ' + v[0], node)
            if isinstance(fn, ast.Name) and fn.id == 'len' and len(node.args) == 1 and isinstance(node.args[0], ast.Name) \
                    and node.args[0].id == 'value':
                if scope.outer is not None:
                    raise Unsupported('len(value) inside a loop element (length of the remaining bytes)', node)
                return ('num', ['var', CEL])
            # int.from_bytes(self.X, byteorder='big') / int.from_bytes(self.X, 'big')
            if isinstance(fn, ast.Attribute) and fn.attr == 'from_bytes' and isinstance(fn.value, ast.Name) and fn.value.id == 'int':
                order = None
                if len(node.args) >= 2 and isinstance(node.args[1], ast.Constant):
                    order = node.args[1].value
                for kw in node.keywords:
                    if kw.arg == 'byteorder' and isinstance(kw.value, ast.Constant):
                        order = kw.value.value
                    elif kw.arg == 'signed':
                        raise Unsupported('int.from_bytes(signed=..)', node)
                v = self.sym(node.args[0], scope)
                if order == 'big' and v[0] == 'bytes':
                    return ('num', ['be', v[1]])
                raise Unsupported('int.from_bytes with byte order ' + repr(order), node)
            # self.method()
            if isinstance(fn, ast.Attribute) and isinstance(fn.value, ast.Name) and fn.value.id == 'self' and not node.args:
                cdef = self.mod.elements.get(scope.cname)
                m = method(cdef, fn.attr) if cdef is not None else None
                if m is not None and len(m.body) >= 1 and isinstance(m.body[-1], ast.Return) and \
                        all(isinstance(s, ast.Expr) and isinstance(s.value, ast.Constant) for s in m.body[:-1]):
                    return self.sym(m.body[-1].value, scope)
                raise Unsupported(f'self.{fn.attr}()', node)
            # module helper function
            if isinstance(fn, ast.Name) and fn.id in self.mod.funcs:
                return self.inline_helper(self.mod.funcs[fn.id], [self.sym(a, scope) for a in node.args], node)
            raise Unsupported('call ' + ast.unparse(fn), node)
        if isinstance(node, ast.Subscript):
            # struct.unpack('>I', self.X)[0]
            c = node.value
            if isinstance(c, ast.Call) and ast.unparse(c.func) == 'struct.unpack' and len(c.args) == 2 and isinstance(c.args[0], ast.Constant) \
                    and isinstance(node.slice, ast.Constant) and node.slice.value == 0:
                fmt = c.args[0].value
                v = self.sym(c.args[1], scope)
                if v[0] == 'bytes' and fmt in ('>I', '>H', '>B', 'B', '>Q', '!I', '!H'):
                    if v[2] is not None and v[2] != struct.calcsize(fmt):
                        raise Unsupported(f'struct.unpack({fmt!r}) of a {v[2]}-byte field', node)
                    return ('num', ['be', v[1]])
                raise Unsupported('struct.unpack ' + repr(fmt), node)
            raise Unsupported('subscript', node)
        if isinstance(node, ast.BinOp):
            if isinstance(node.op, ast.BitAnd):
                a, b = self.sym(node.left, scope), self.sym(node.right, scope)
                if a[0] == 'num' and a[1][0] == 'be' and b[0] == 'const' and isinstance(b[1], int):
                    return ('mask', a[1][1], b[1])
                raise Unsupported('& of ' + a[0] + ' and ' + b[0], node)
            a, b = self.num(self.sym(node.left, scope), node, scope), self.num(self.sym(node.right, scope), node, scope)
            if isinstance(node.op, ast.Add):
                return ('num', e_add(a, b))
            if isinstance(node.op, ast.Mult):
                return ('num', e_mul(a, b))
            if isinstance(node.op, ast.Sub):
                if a[0] == 'lit' and b[0] == 'lit' and a[1] >= b[1]:
                    return ('num', e_lit(a[1] - b[1]))
                return ('num', ['sub', a, b])
            if isinstance(node.op, (ast.Div, ast.FloorDiv)):
                if b[0] == 'lit' and b[1] > 0:
                    if isinstance(node.op, ast.Div):
                        self.notes.append(f'line {node.lineno}: float division by {b[1]} read as exact integer division')
                    return ('num', ['div', a, b[1]])
                raise Unsupported('division by a non-literal', node)
            raise Unsupported('operator ' + type(node.op).__name__, node)
        raise Unsupported('expression ' + type(node).__name__, node)

    def num(self, v, node, scope=None):
        """symbolic value -> Expr tree"""
        if v[0] == 'num':
            return v[1]
        if v[0] == 'int':
            return ['var', v[1]]
        if v[0] == 'const' and isinstance(v[1], int) and not isinstance(v[1], bool) and v[1] >= 0:
            return e_lit(v[1])
        if v[0] == 'str':
            self.defects.append({'kind': 'text-used-as-number', 'tre': self.tre, 'class': scope.cname if scope else None, 'line': node.lineno,
                                 'attr': self.names.get(v[1]), 'key': f'{self.tre}:{scope.cname if scope else None}.{self.names.get(v[1])}-text-used-as-number',
                                 'what': f'the text field {self.names.get(v[1])} is used as a number without int(): TypeError at run time'})
            return ['dec', v[1]]
        if v[0] == 'opt':
            out = e_lit(0)
            for c, e in reversed(v[1]):
                out = ['ite', c, e, out]
            return out
        raise Unsupported('a ' + v[0] + ' value used as a number', node)

    def inline_helper(self, fdef, args, callnode):
        """helper of the shape  [x = x.lower()]  if x in [..]: return c  elif ..: return c  else: [log]; return None"""
        params = [a.arg for a in fdef.args.args]
        if len(params) != len(args):
            raise Unsupported(f'helper {fdef.name}: arity', callnode)
        env = dict(zip(params, args))
        fake = Scope('<helper>', None)
        fake.locals = env
        branches = []

        def ret_value(stmts):
            stmts = [s for s in stmts if not (isinstance(s, ast.Expr) and isinstance(s.value, (ast.Call, ast.Constant)))]
            if len(stmts) == 1 and isinstance(stmts[0], ast.Return):
                r = stmts[0].value
                if r is None or (isinstance(r, ast.Constant) and r.value is None):
                    return None
                if isinstance(r, ast.Constant) and isinstance(r.value, int):
                    return e_lit(r.value)
            raise Unsupported(f'helper {fdef.name}: branch is not a plain return of a literal', callnode)

        def chain(stmts, neg):
            for i, s in enumerate(stmts):
                if isinstance(s, ast.Expr) and isinstance(s.value, ast.Constant):
                    continue
                if isinstance(s, ast.Assign) and len(s.targets) == 1 and isinstance(s.targets[0], ast.Name):
                    fake.locals[s.targets[0].id] = self.sym(s.value, fake)
                    continue
                if isinstance(s, ast.If):
                    c = self.cond(s.test, fake)
                    v = ret_value(s.body)
                    branches.append((c_and(neg, c), v))
                    neg2 = c_and(neg, c_not(c))
                    if s.orelse:
                        chain(s.orelse, neg2)
                    else:
                        chain(stmts[i + 1:], neg2)
                    return
                v = ret_value(stmts[i:])
                branches.append((neg, v))
                return
            branches.append((neg, None))

        chain(fdef.body, None)
        if len(branches) == 1 and branches[0][0] is None and branches[0][1] is not None:
            return ('num', branches[0][1])
        if any(c is None and e is not None for c, e in branches):
            raise Unsupported(f'helper {fdef.name}: unconditional value after conditional returns', callnode)
        # a None value means "no field"
        return ('opt', [(c, e) for c, e in branches if e is not None])

    # ---- conditions
    def cond(self, node, scope):
        if isinstance(node, ast.BoolOp):
            parts = [self.cond(v, scope) for v in node.values]
            out = parts[0]
            for p in parts[1:]:
                out = c_and(out, p) if isinstance(node.op, ast.And) else c_or(out, p)
            return out
        if isinstance(node, ast.UnaryOp) and isinstance(node.op, ast.Not):
            return c_not(self.cond(node.operand, scope))
        if isinstance(node, ast.Compare) and len(node.ops) == 1:
            op = node.ops[0]
            left = self.sym(node.left, scope)
            right_node = node.comparators[0]
            if isinstance(op, (ast.Is, ast.IsNot)) and isinstance(right_node, ast.Constant) and right_node.value is None:
                if left[0] != 'opt':
                    raise Unsupported('is None of a ' + left[0], node)
                some = None
                for c, _ in left[1]:
                    some = c if some is None else c_or(some, c)
                if some is None:
                    raise Unsupported('helper never returns a value', node)
                return some if isinstance(op, ast.IsNot) else c_not(some)
            if left[0] == 'str':
                consts = None
                if isinstance(op, (ast.Eq, ast.NotEq)) and isinstance(right_node, ast.Constant) and isinstance(right_node.value, str):
                    consts = [right_node.value]
                elif isinstance(op, (ast.In, ast.NotIn)) and isinstance(right_node, (ast.List, ast.Tuple, ast.Set)) and \
                        all(isinstance(e, ast.Constant) and isinstance(e.value, str) for e in right_node.elts):
                    consts = [e.value for e in right_node.elts]
                if consts is None:
                    raise Unsupported('comparison of a text field with ' + ast.unparse(right_node), node)
                if 'lower' in left[2]:
                    consts = [v for c in consts if c == c.lower() for v in case_variants(c)]
                c = ['strIn', left[1], 'strip' in left[2], sorted(set(consts))]
                return c_not(c) if isinstance(op, (ast.NotEq, ast.NotIn)) else c
            if left[0] in ('int', 'num') and isinstance(op, (ast.Gt, ast.GtE, ast.NotEq)) and isinstance(right_node, ast.Constant):
                k = right_node.value
                ok = (isinstance(op, ast.Gt) and k == 0) or (isinstance(op, ast.GtE) and k == 1) or (isinstance(op, ast.NotEq) and k == 0)
                if ok:
                    if left[0] == 'int':
                        return ['pos', left[1]]
                    if left[1][0] == 'var':
                        return ['pos', left[1][1]]
                    if left[1][0] == 'dec':
                        return ['posDec', left[1][1]]
            raise Unsupported('comparison ' + ast.unparse(node), node)
        v = self.sym(node, scope)
        if v[0] == 'mask':
            return ['bit', v[1], v[2]]
        if v[0] == 'int':
            return ['pos', v[1]]
        raise Unsupported('truth value of ' + v[0], node)

    # ---- statements
    def static_name(self, node, consts):
        if isinstance(node, ast.Constant) and isinstance(node.value, str):
            return node.value
        try:
            v = eval(compile(ast.Expression(node), '<name>', 'eval'), {'__builtins__': {}}, dict(consts))
        except Exception:
            raise Unsupported('field name is not a constant expression: ' + ast.unparse(node), node)
        if not isinstance(v, str):
            raise Unsupported('field name is not text', node)
        return v

    def new_field(self, scope, name, typ, node_tree, path, line, width=None, via='attr', extra=None):
        fid = self.next_id
        self.next_id += 1
        self.names[fid] = name
        dup_key = None
        if name in scope.bound and scope.bound[name].get('path') == path:
            dup_key = f'{self.tre}:{scope.cname}.{name}-added-more-than-once'
            self.defects.append({'kind': 'duplicate-attribute', 'tre': self.tre, 'class': scope.cname, 'attr': name, 'line': line, 'path': path,
                                 'key': dup_key,
                                 'what': f'{scope.cname} adds the attribute {name} twice on the same path: the second value replaces the first, '
                                         f'to_bytes() writes the second value in both places'})
        scope.bound[name] = {'id': fid, 'typ': typ, 'width': width, 'path': path}
        tree = node_tree if path is None else ['cond', path, node_tree]
        f = {'name': name, 'id': fid, 'typ': typ, 'node': tree, 'via': via, 'line': line}
        if dup_key:
            f['dup_key'] = dup_key
        if extra:
            f.update(extra)
        return f

    def fixed_len(self, tree):
        """length of a description node as an Expr tree not depending on its own fields, or None"""
        k = tree[0]
        if k == 'int':
            return e_lit(tree[1])
        if k in ('tstr', 'raw'):
            return tree[1]
        if k == 'rec':
            own = {f['id'] for f in tree[1]}
            tot = e_lit(0)
            for f in tree[1]:
                ln = self.fixed_len(f['node'])
                if ln is None or (expr_vars(ln) & own):
                    return None
                tot = e_add(tot, ln)
            return tot
        if k == 'cond':
            ln = self.fixed_len(tree[2])
            return None if ln is None else ['ite', tree[1], ln, e_lit(0)]
        if k == 'loop':
            ln = self.fixed_len(tree[2])
            return None if ln is None else e_mul(tree[1], ln)
        return None

    def grow(self, scope, tree):
        if scope.consumed is None:
            return
        ln = self.fixed_len(tree)
        scope.consumed = None if ln is None else e_add(scope.consumed, ln)

    def body(self, stmts, scope, path, consts, fields):
        for s in stmts:
            self.cur_path = path
            if isinstance(s, ast.Expr) and isinstance(s.value, ast.Constant):
                continue
            if isinstance(s, ast.Pass):
                continue
            if isinstance(s, ast.Expr) and isinstance(s.value, ast.Call):
                fn = ast.unparse(s.value.func)
                c = s.value
                if fn.startswith('super(') and fn.endswith('.__init__'):
                    continue
                if fn.startswith('logger.') or fn.startswith('logging.'):
                    continue
                if fn == 'self.add_field':
                    if len(c.args) != 4 or c.keywords:
                        raise Unsupported('add_field call shape', s)
                    name = self.static_name(c.args[0], consts)
                    if not (isinstance(c.args[1], ast.Constant) and isinstance(c.args[1].value, str)):
                        raise Unsupported('add_field type is not a literal', s)
                    typ = c.args[1].value
                    ln = self.num(self.sym(c.args[2], scope), s, scope)
                    if typ == 'd':
                        if ln[0] != 'lit':
                            raise Unsupported("a 'd' field of computed width", s)
                        f = self.new_field(scope, name, 'd', ['int', ln[1]], path, s.lineno)
                    elif typ == 's':
                        f = self.new_field(scope, name, 's', ['tstr', ln], path, s.lineno)
                    elif typ == 'b':
                        f = self.new_field(scope, name, 'b', ['raw', ln], path, s.lineno, width=ln[1] if ln[0] == 'lit' else None)
                    elif typ == 'ieee754_binary32':
                        if ln != ['lit', 4]:
                            raise Unsupported('ieee754_binary32 field whose length is not 4', s)
                        f = self.new_field(scope, name, 'f', ['raw', ln], path, s.lineno)
                    else:
                        raise Unsupported('add_field type ' + repr(typ), s)
                    fields.append(f)
                    self.grow(scope, f['node'])
                    continue
                if fn == 'self.add_loop':
                    if len(c.args) < 4 or c.keywords:
                        raise Unsupported('add_loop call shape', s)
                    name = self.static_name(c.args[0], consts)
                    cnt = self.num(self.sym(c.args[1], scope), s, scope)
                    if not isinstance(c.args[2], ast.Name) or c.args[2].id not in self.mod.elements:
                        raise Unsupported('add_loop child class ' + ast.unparse(c.args[2]), s)
                    args = [self.sym(a, scope) for a in c.args[4:]]
                    item = self.element(c.args[2].id, args, scope, s)
                    f = self.new_field(scope, name, 'loop', ['loop', cnt, item], path, s.lineno, via='loop', extra={'child': c.args[2].id})
                    fields.append(f)
                    self.grow(scope, f['node'])
                    continue
                raise Unsupported('statement ' + fn + '(...)', s)
            if isinstance(s, ast.Assign) and len(s.targets) == 1 and isinstance(s.targets[0], ast.Name):
                scope.locals[s.targets[0].id] = self.sym(s.value, scope)
                continue
            if isinstance(s, ast.If):
                if all(isinstance(b, ast.Raise) for b in s.body) and not s.orelse:
                    self.guards.append({'tre': self.tre, 'class': scope.cname, 'line': s.lineno, 'test': ast.unparse(s.test)})
                    continue
                c = self.cond(s.test, scope)
                self.body(s.body, scope, c_and(path, c), consts, fields)
                if s.orelse:
                    self.body(s.orelse, scope, c_and(path, c_not(c)), consts, fields)
                continue
            if isinstance(s, ast.For) and isinstance(s.target, ast.Name) and not s.orelse:
                it = s.iter
                values = None
                if isinstance(it, (ast.List, ast.Tuple)) and all(isinstance(e, ast.Constant) for e in it.elts):
                    values = [e.value for e in it.elts]
                elif isinstance(it, ast.Call) and isinstance(it.func, ast.Name) and it.func.id == 'range' and \
                        all(isinstance(a, ast.Constant) and isinstance(a.value, int) for a in it.args) and 1 <= len(it.args) <= 3:
                    values = list(range(*[a.value for a in it.args]))
                if values is not None:
                    for v in values:
                        self.body(s.body, scope, path, dict(consts, **{s.target.id: v}), fields)
                    continue
                if isinstance(it, ast.Call) and isinstance(it.func, ast.Name) and it.func.id == 'range' and len(it.args) == 1:
                    cnt = self.num(self.sym(it.args[0], scope), s, scope)
                    # the body may only add fields whose names depend on the index; they become the fields of a loop item
                    sub = Scope(scope.cname, scope)
                    sub.same_object = True
                    sub.locals = dict(scope.locals)
                    item_fields = []
                    name_srcs = []
                    for b in s.body:
                        if not (isinstance(b, ast.Expr) and isinstance(b.value, ast.Call) and ast.unparse(b.value.func) == 'self.add_field'):
                            raise Unsupported('for-range body other than add_field', b)
                        name_srcs.append(ast.unparse(b.value.args[0]))
                        self.body([b], sub, None, dict(consts, **{s.target.id: 0}), item_fields)
                    for f, src in zip(item_fields, name_srcs):
                        f['name_src'] = src
                        f['index_var'] = s.target.id
                    f = self.new_field(scope, '<for ' + s.target.id + ' line ' + str(s.lineno) + '>', 'loop', ['loop', cnt, ['rec', item_fields]],
                                       path, s.lineno, via='forrange')
                    fields.append(f)
                    self.grow(scope, f['node'])
                    continue
                raise Unsupported('for loop over ' + ast.unparse(it), s)
            raise Unsupported('statement ' + type(s).__name__, s)

    def element(self, cname, args, outer, node):
        if self.depth > 12:
            raise Unsupported('element classes nest too deep / recursive', node)
        cdef = self.mod.elements.get(cname)
        if cdef is None:
            raise Unsupported(f'element class {cname} not found in the module', node)
        for m in cdef.body:
            if isinstance(m, ast.FunctionDef) and m.name in CODEC_METHODS - {'__init__'}:
                raise Unsupported(f'{cname} overrides {m.name}', m)
        init = method(cdef, '__init__')
        if init is None:
            raise Unsupported(f'{cname} has no __init__ of its own', node)
        params = [a.arg for a in init.args.args]
        if params[:2] != ['self', 'value'] or init.args.vararg or init.args.kwarg or init.args.kwonlyargs:
            raise Unsupported(f'{cname}.__init__ signature', init)
        extra = params[2:]
        if len(extra) != len(args):
            raise Unsupported(f'{cname}.__init__ takes {len(extra)} extra arguments, add_loop passes {len(args)}', node)
        scope = Scope(cname, outer)
        scope.locals = dict(zip(extra, args))
        fields = []
        self.depth += 1
        n0 = len(self.defects)
        try:
            self.body(init.body, scope, None, {}, fields)
        finally:
            self.depth -= 1
        raises = sorted({d['key'] for d in self.defects[n0:] if d['kind'] in ('unbound-attribute', 'text-used-as-number') and d.get('class') == cname})
        return ['rec', fields, {'raises': raises}] if raises else ['rec', fields]


def path_conjuncts(p):
    if p is None:
        return []
    if p[0] == 'and':
        return path_conjuncts(p[1]) + path_conjuncts(p[2])
    return [json.dumps(p, sort_keys=True)]


def path_implies(cur, need):
    """every conjunct of `need` is a conjunct of `cur` (syntactic; enough for reads inside the `if` that added the field)"""
    have = set(path_conjuncts(cur))
    return all(c in have for c in path_conjuncts(need))


def expr_vars(e):
    k = e[0]
    if k == 'lit':
        return set()
    if k in ('var', 'dec', 'be'):
        return {e[1]}
    if k in ('mul', 'add', 'sub'):
        return expr_vars(e[1]) | expr_vars(e[2])
    if k in ('ceilDiv', 'div'):
        return expr_vars(e[1])
    if k == 'ite':
        return cond_vars(e[1]) | expr_vars(e[2]) | expr_vars(e[3])
    raise ValueError(k)


def cond_vars(c):
    k = c[0]
    if k in ('strIn', 'pos', 'posDec', 'bit'):
        return {c[1]}
    if k == 'not':
        return cond_vars(c[1])
    if k == 'and':
        return cond_vars(c[1]) | cond_vars(c[2])
    raise ValueError(k)


# ---------------------------------------------------------------------------------------------- python mirror of the Lean semantics

SPACE = set(b' \t\n\r\x0b\x0c\x1c\x1d\x1e\x1f')


def nat_of(v):
    """Spec.FieldFmt2.natOf on python values: int field -> max(v, 0); everything else 0"""
    if isinstance(v, bool):
        return 0
    if isinstance(v, int):
        return max(v, 0)
    return 0


def dec_of(v):
    if isinstance(v, str):
        v = v.encode('utf-8')
    if isinstance(v, (bytes, bytearray)):
        if all(48 <= b <= 57 for b in v):
            return int(v) if len(v) else 0
        return 0
    return nat_of(v)


def be_of(v):
    if isinstance(v, (bytes, bytearray)):
        return int.from_bytes(v, 'big')
    return nat_of(v)


def eval_expr(e, env):
    k = e[0]
    if k == 'lit':
        return e[1]
    if k == 'var':
        return nat_of(env.get(e[1]))
    if k == 'dec':
        return dec_of(env.get(e[1]))
    if k == 'be':
        return be_of(env.get(e[1]))
    if k == 'mul':
        return eval_expr(e[1], env) * eval_expr(e[2], env)
    if k == 'add':
        return eval_expr(e[1], env) + eval_expr(e[2], env)
    if k == 'sub':
        return max(eval_expr(e[1], env) - eval_expr(e[2], env), 0)
    if k == 'div':
        return eval_expr(e[1], env) // e[2]
    if k == 'ceilDiv':
        return (eval_expr(e[1], env) + (e[2] - 1)) // e[2] if e[2] else 0
    if k == 'ite':
        return eval_expr(e[2], env) if eval_cond(e[1], env) else eval_expr(e[3], env)
    raise ValueError(k)


def eval_cond(c, env):
    k = c[0]
    if k == 'strIn':
        v = env.get(c[1])
        if not isinstance(v, str):
            return False
        if c[2]:
            v = v.lstrip(''.join(chr(b) for b in SPACE))
        return v in c[3]
    if k == 'pos':
        return nat_of(env.get(c[1])) > 0
    if k == 'posDec':
        return dec_of(env.get(c[1])) > 0
    if k == 'bit':
        return (be_of(env.get(c[1])) & c[2]) != 0
    if k == 'not':
        return not eval_cond(c[1], env)
    if k == 'and':
        return eval_cond(c[1], env) and eval_cond(c[2], env)
    raise ValueError(k)


# ---------------------------------------------------------------------------------------------- Lean emission

def _bytes_lit(s):
    return '[' + ', '.join(str(b) for b in s.encode('utf-8')) + ']'


def lean_cond(c):
    k = c[0]
    if k == 'strIn':
        return f'(.strIn {c[1]} {"true" if c[2] else "false"} [{", ".join(_bytes_lit(x) for x in c[3])}])'
    if k in ('pos', 'posDec'):
        return f'(.{k} {c[1]})'
    if k == 'bit':
        return f'(.bit {c[1]} {c[2]})'
    if k == 'not':
        return f'(.not {lean_cond(c[1])})'
    if k == 'and':
        return f'(.and {lean_cond(c[1])} {lean_cond(c[2])})'
    raise ValueError(k)


def lean_expr(e):
    k = e[0]
    if k == 'lit':
        return f'(.lit {e[1]})'
    if k in ('var', 'dec', 'be'):
        return f'(.{k} {e[1]})'
    if k in ('mul', 'add', 'sub'):
        return f'(.{k} {lean_expr(e[1])} {lean_expr(e[2])})'
    if k in ('ceilDiv', 'div'):
        return f'(.{k} {lean_expr(e[1])} {e[2]})'
    if k == 'ite':
        return f'(.ite {lean_cond(e[1])} {lean_expr(e[2])} {lean_expr(e[3])})'
    raise ValueError(k)


def lean_node(n, indent=2):
    k = n[0]
    if k == 'int':
        return f'(.int {n[1]})'
    if k == 'tstr':
        return f'(.tstr {lean_expr(n[1])})'
    if k == 'raw':
        return f'(.raw {lean_expr(n[1])})'
    if k == 'cond':
        return f'(.cond {lean_cond(n[1])} {lean_node(n[2], indent)})'
    if k == 'loop':
        return f'(.loop {lean_expr(n[1])} {lean_node(n[2], indent + 2)})'
    if k == 'rec':
        # iterative emission: records have up to a few hundred fields
        pad = ' ' * indent
        parts = [f'(.seq {f["id"]} {lean_node(f["node"], indent + 2)}' for f in n[1]]
        return ('\n' + pad).join(parts + ['.unit']) + ')' * len(parts)
    raise ValueError(k)


def count_fields(n):
    k = n[0]
    if k == 'rec':
        return sum(1 + count_fields(f['node']) for f in n[1])
    if k in ('cond', 'loop'):
        return count_fields(n[2])
    return 0


def strip_lines(tree):
    """the description without source line numbers (what the snapshot compares)"""
    if isinstance(tree, dict):
        return {k: strip_lines(v) for k, v in tree.items() if k != 'line'}
    if isinstance(tree, (list, tuple)):
        return [strip_lines(v) for v in tree]
    return tree


def canon(tree):
    return json.dumps(strip_lines(tree), sort_keys=True)


# ---------------------------------------------------------------------------------------------- whole package

def parse_dispatch(cdef, mod):
    """{payload length: variant class name} from a hand-written from_bytes (ACFTA, AIMIDA, ...)"""
    fb = method(cdef, 'from_bytes')
    if fb is None:
        return None
    table = {}
    lenvar = None
    for s in ast.walk(fb):
        if isinstance(s, ast.Assign) and len(s.targets) == 1 and isinstance(s.targets[0], ast.Name) and \
                ast.unparse(s.value).replace(' ', '') == 'int(value[start+6:start+11])':
            lenvar = s.targets[0].id
    if lenvar is None:
        raise Unsupported('from_bytes override: the length read is not recognised', fb)

    def walk_if(s):
        t = s.test
        if isinstance(t, ast.Compare) and len(t.ops) == 1 and isinstance(t.ops[0], ast.Eq) and isinstance(t.left, ast.Name) and t.left.id == lenvar \
                and isinstance(t.comparators[0], ast.Constant) and len(s.body) == 1 and isinstance(s.body[0], ast.Return):
            r = s.body[0].value
            if isinstance(r, ast.Call) and isinstance(r.func, ast.Attribute) and r.func.attr == 'from_bytes' and isinstance(r.func.value, ast.Name) \
                    and [ast.unparse(a) for a in r.args] == ['value', 'start'] and r.func.value.id in mod.extensions:
                table[t.comparators[0].value] = r.func.value.id
                for o in s.orelse:
                    if isinstance(o, ast.If):
                        walk_if(o)
                    elif not isinstance(o, ast.Raise):
                        raise Unsupported('from_bytes override: unexpected else branch', o)
                return
        raise Unsupported('from_bytes override: branch is not `if lng == c: return V.from_bytes(value, start)`', s)

    for s in fb.body:
        if isinstance(s, ast.If) and isinstance(s.test, ast.Compare) and isinstance(s.test.left, ast.Name) and s.test.left.id == lenvar:
            walk_if(s)
    if not table:
        raise Unsupported('from_bytes override without a length dispatch', fb)
    return table


def build():
    base = tres_dir()
    mods = []
    bad_modules = {}
    for root, dirs, files in os.walk(base):
        dirs.sort()
        for f in sorted(files):
            if f.endswith('.py') and f not in SKIP_FILES:
                p = os.path.join(root, f)
                try:
                    mods.append(Module(p, os.path.relpath(p, base)))
                except (SyntaxError, ValueError, OSError) as e:
                    bad_modules[os.path.relpath(p, base)] = f'{type(e).__name__}: {e}'
    tres, untranslated, defects, guards, dispatch, hashes = {}, {}, [], [], {}, {}
    for mod in mods:
        hashes[mod.rel] = hashlib.sha256(mod.src).hexdigest()[:16]
        for ename, cdef in mod.extensions.items():
            tagn = class_attr(cdef, '_tag_value')
            tag = tagn.value if isinstance(tagn, ast.Constant) and isinstance(tagn.value, str) else None
            dt = class_attr(cdef, '_data_type')
            try:
                if tag is None:
                    raise Unsupported('_tag_value is not a string literal', cdef)
                if method(cdef, 'from_bytes') is not None:
                    dispatch[ename] = {'tag': tag, 'module': mod.rel, 'by_length': parse_dispatch(cdef, mod)}
                    continue
                if not isinstance(dt, ast.Name):
                    raise Unsupported('_data_type is not a class name', cdef)
                for m in cdef.body:
                    if isinstance(m, ast.FunctionDef) and m.name in CODEC_METHODS:
                        raise Unsupported(f'the extension class overrides {m.name}', m)
                tr = Translator(mod, ename)
                tree = tr.element(dt.id, [], None, cdef)
                tres[ename] = {'tag': tag, 'module': mod.rel, 'data_type': dt.id, 'tree': tree, 'names': tr.names, 'notes': tr.notes,
                               'uses_cel': CEL in tree_vars(tree), 'fixed_length': fixed_total(tree)}
                defects += tr.defects
                guards += tr.guards
            except Unsupported as e:
                untranslated[ename] = {'module': mod.rel, 'construct': e.what, 'line': e.lineno}
            except Exception as e:      # fail closed: a construct the translator trips over is an untranslated TRE, never a crash
                untranslated[ename] = {'module': mod.rel, 'construct': f'translator error {type(e).__name__}: {e}', 'line': None}
    # dispatch tables: each variant must be translated, fixed length, and as long as its key
    for dname, d in dispatch.items():
        for ln, v in sorted(d['by_length'].items()):
            if v not in tres:
                continue
            if tres[v]['fixed_length'] is not None and tres[v]['fixed_length'] != ln:
                defects.append({'kind': 'dispatch-length', 'tre': dname, 'variant': v, 'line': None, 'length': ln, 'layout_length': tres[v]['fixed_length'],
                                'key': f'{dname}:length-{ln}-dispatched-to-{v}-whose-layout-has-{tres[v]["fixed_length"]}-bytes',
                                'what': f'{dname}.from_bytes sends payloads of {ln} bytes to {v}, whose layout has {tres[v]["fixed_length"]} bytes'})
    # de-duplicate defects (a class translated twice reports twice)
    seen, uniq = set(), []
    for d in defects:
        k = json.dumps(d, sort_keys=True)
        if k not in seen:
            seen.add(k)
            uniq.append(d)
    for rel, why in bad_modules.items():
        untranslated['<module ' + rel + '>'] = {'module': rel, 'construct': 'module does not parse: ' + why, 'line': None}
    return {'tres': tres, 'untranslated': untranslated, 'defects': uniq, 'guards': guards, 'dispatch': dispatch, 'source_hashes': hashes,
            'dir': base}


def tree_vars(n):
    k = n[0]
    if k == 'int':
        return set()
    if k in ('tstr', 'raw'):
        return expr_vars(n[1])
    if k == 'cond':
        return cond_vars(n[1]) | tree_vars(n[2])
    if k == 'loop':
        return expr_vars(n[1]) | tree_vars(n[2])
    if k == 'rec':
        out = set()
        for f in n[1]:
            out |= tree_vars(f['node'])
        return out
    raise ValueError(k)


def fixed_total(tree):
    """total length when no length depends on a field value, else None"""
    k = tree[0]
    if k == 'int':
        return tree[1]
    if k in ('tstr', 'raw'):
        return tree[1][1] if tree[1][0] == 'lit' else None
    if k == 'rec':
        tot = 0
        for f in tree[1]:
            ln = fixed_total(f['node'])
            if ln is None:
                return None
            tot += ln
        return tot
    return None


def load_snapshot():
    if not os.path.exists(SNAPSHOT):
        return None
    return json.load(open(SNAPSHOT))


def snapshot_of(r):
    return {'tres': {n: {'tag': t['tag'], 'tree': strip_lines(t['tree'])} for n, t in sorted(r['tres'].items())},
            'dispatch': {n: {'tag': d['tag'], 'by_length': {str(k): v for k, v in sorted(d['by_length'].items())}} for n, d in sorted(r['dispatch'].items())},
            'untranslated': {n: u['construct'] for n, u in sorted(r['untranslated'].items())}}


def diff_snapshot(r):
    snap = load_snapshot()
    if snap is None:
        return {'missing_snapshot': True, 'changed': [], 'added': [], 'removed': []}
    cur = snapshot_of(r)
    changed = sorted(n for n in cur['tres'] if n in snap['tres'] and canon(cur['tres'][n]) != canon(snap['tres'][n]))
    added = sorted(n for n in cur['tres'] if n not in snap['tres'])
    removed = sorted(n for n in snap['tres'] if n not in cur['tres'])
    dchanged = sorted(n for n in set(cur['dispatch']) | set(snap['dispatch']) if canon(cur['dispatch'].get(n)) != canon(snap['dispatch'].get(n)))
    return {'missing_snapshot': False, 'changed': changed, 'added': added, 'removed': removed, 'dispatch_changed': dchanged}


def generate(path):
    r = build()
    head = ['-- GENERATED by translate/tables_tre.py from the TRE modules of the current sarpy tree (do not edit; regenerated on every check run)',
            '-- ids: 1 = CEL (payload length, parameter); fields 2.. in order of appearance; names in the comment of each description']
    defs = head + ['import SarpyModel.Spec.Tre', 'namespace Sarpy.Gen.Tre', 'open Sarpy.Spec.FieldFmt2', 'open Sarpy.Spec.FieldFmt (Bytes)', '']
    thms = head + ['import SarpyModel.Gen.TreTablesDefs', 'import SarpyModel.Props.C13t', 'namespace Sarpy.Gen.Tre',
                   'open Sarpy.Spec.FieldFmt2 Sarpy.Spec.Tre', 'open Sarpy.Spec.FieldFmt (Bytes)', '']
    done = []
    for n in sorted(r['tres']):
        t = r['tres'][n]
        defs.append(f'/-- {n} (tag {t["tag"]!r}, {t["module"]}, {t["data_type"]}): ' +
                    ' '.join(f'{i}={nm}' for i, nm in sorted(t['names'].items())).replace('-/', '- /') + ' -/')
        defs.append(f'def d_{n} : Fmt :=\n  {lean_node(t["tree"])}')
        defs.append('')
        thms.append(f'theorem d_{n}_wf : wellFormed d_{n} [1] = true := by decide +kernel')
        done.append(n)
    defs.append('def tables : List (String × Bytes × Fmt) := [')
    defs.append(',\n'.join(f'  ("{n}", {_bytes_lit(r["tres"][n]["tag"])}, d_{n})' for n in done))
    defs.append(']')
    defs.append('')
    defs.append('/-- hand-written `from_bytes` overrides: tag, then (payload length, variant) pairs -/')
    defs.append('def dispatch : List (String × Bytes × List (Nat × String)) := [')
    defs.append(',\n'.join(f'  ("{n}", {_bytes_lit(d["tag"])}, [' + ', '.join(f'({k}, "{v}")' for k, v in sorted(d['by_length'].items())) + '])'
                           for n, d in sorted(r['dispatch'].items())))
    defs.append(']')
    defs += ['', 'end Sarpy.Gen.Tre']
    thms += ['',
             '/-- every generated TRE description is well formed (kernel-decided) -/',
             'theorem tables_wf : tables.all (fun t => wellFormed t.2.2 [1]) = true := by decide +kernel',
             '',
             '/-- every tag is a legal TAG field value (at most 6 ASCII characters, no blanks at either end) -/',
             'theorem tables_tags : tables.all (fun t => acceptTStr 6 t.2.1) = true := by decide +kernel',
             '',
             '/-- the codec theorems of Props/C13x.lean for the payload of every translated TRE: all field values, all loop counts -/',
             'theorem tables_round_trip : ∀ t ∈ tables, ∀ (env0 : Env) (v : Val) (rest : Bytes), accept env0 t.2.2 v = true →',
             '    decode env0 t.2.2 (encode env0 t.2.2 v ++ rest) = some (v, rest) ∧ (encode env0 t.2.2 v).length = length env0 t.2.2 v := by',
             '  intro t ht env0 v rest ha',
             '  exact ⟨Sarpy.Props.C13x.decode_encode (List.all_eq_true.mp tables_wf t ht) env0 ha rest, Sarpy.Props.C13x.encode_length env0 _ ha⟩',
             '',
             'theorem tables_reencode : ∀ t ∈ tables, ∀ (env0 : Env) (bs : Bytes), conformant env0 t.2.2 bs = true →',
             '    ∃ v rest, decode env0 t.2.2 bs = some (v, rest) ∧ accept env0 t.2.2 v = true ∧ encode env0 t.2.2 v ++ rest = bs := by',
             '  intro t ht env0 bs hc',
             '  exact Sarpy.Props.C13x.reencode_conformant (List.all_eq_true.mp tables_wf t ht) env0 hc',
             '',
             '/-- the whole tagged record (TAG, CEL, payload) of every translated TRE: written with the length the object reports,',
             '    read back to the same value, whatever follows is left untouched; total length 11 + payload length -/',
             'theorem tables_envelope : ∀ t ∈ tables, ∀ (v : Val) (rest : Bytes), okTre t.2.2 v = true →',
             '    decTre t.2.1 t.2.2 (encTre t.2.1 t.2.2 v ++ rest) = some (v, rest) ∧ (encTre t.2.1 t.2.2 v).length = 11 + treLen t.2.2 v := by',
             '  intro t ht v rest hok',
             '  have hw := List.all_eq_true.mp tables_wf t ht',
             '  have hg := List.all_eq_true.mp tables_tags t ht',
             '  exact ⟨Sarpy.Props.C13t.decTre_encTre hw hg hok rest, Sarpy.Props.C13t.encTre_length hg hok⟩',
             '',
             'end Sarpy.Gen.Tre']
    changed = False
    for pth, txt in ((os.path.join(os.path.dirname(path), 'TreTablesDefs.lean'), '\n'.join(defs) + '\n'), (path, '\n'.join(thms) + '\n')):
        old = open(pth).read() if os.path.exists(pth) else None
        if old != txt:
            changed = True
            with open(pth, 'w') as f:
                f.write(txt)
    r['wf_theorems'] = [f'd_{n}_wf' for n in done] + ['tables_wf', 'tables_tags', 'tables_round_trip', 'tables_reencode', 'tables_envelope']
    r['changed'] = changed
    r['snapshot_diff'] = diff_snapshot(r)
    return r


if __name__ == '__main__':
    out = generate(os.path.join(HERE, '..', 'lean', 'SarpyModel', 'Gen', 'TreTables.lean'))
    if '--snapshot' in sys.argv:
        with open(SNAPSHOT, 'w') as f:
            json.dump(snapshot_of(out), f, indent=0, sort_keys=True)
        print('snapshot written:', SNAPSHOT)
        out['snapshot_diff'] = diff_snapshot(out)
    print('translated:', len(out['tres']), 'dispatch:', {k: v['by_length'] for k, v in out['dispatch'].items()})
    print('untranslated:', json.dumps(out['untranslated'], indent=1))
    for d in out['defects']:
        print('DEFECT', d['kind'], d.get('tre'), d.get('line'), d['what'])
    for g in out['guards']:
        print('guard', g)
    print('snapshot diff:', out['snapshot_diff'])
    print('fields:', sum(count_fields(t['tree']) for t in out['tres'].values()))
