"""Regenerate every Lean file that is derived from /repo's current source (run by setup and by each check)."""
import os
import sys
HERE = os.path.dirname(os.path.abspath(__file__))
sys.path.insert(0, HERE)
GEN = os.path.join(HERE, '..', 'lean', 'SarpyModel', 'Gen')


def main():
    os.makedirs(GEN, exist_ok=True)
    import gen_slices, gen_nitf, tables_nitf
    r1 = gen_slices.generate(os.path.join(GEN, 'Slices.lean'))
    r2 = gen_nitf.generate(os.path.join(GEN, 'NitfKernels.lean'))
    r3 = tables_nitf.generate(os.path.join(GEN, 'NitfTables.lean'))
    print('generated:', {'Slices': r1['unsupported'], 'NitfKernels': r2['unsupported'], 'NitfTables': len(r3['tables'])})
    import gen_kernels2
    r6 = gen_kernels2.generate(os.path.join(GEN, 'Kernels2.lean'))
    print('generated:', {'Kernels2': r6['unsupported']})
    import tables_nitf2
    r4 = tables_nitf2.generate(os.path.join(GEN, 'NitfTables2.lean'))
    print('generated:', {'NitfTables2': len(r4['descs']), 'errors': r4['errors'], 'mismatches': len(r4['mismatches'])})
    import tables_tre
    r6 = tables_tre.generate(os.path.join(GEN, 'TreTables.lean'))     # also writes Gen/TreTablesDefs.lean
    print('generated:', {'TreTables': len(r6['tres']), 'untranslated': r6['untranslated'], 'defects': len(r6['defects'])})
    import xsd2lean
    r5 = xsd2lean.generate(os.path.join(GEN, 'XsdPairs.lean'))     # also writes Gen/XsdClosed.lean
    print('generated:', {'XsdPairs': {k: r5[k] for k in list(r5)[:6] if not isinstance(r5[k], (list, dict))}})
    import gen_geo
    r6 = gen_geo.generate(os.path.join(GEN, 'Geo.lean'))
    print('generated:', {'Geo': r6['unsupported']})
    import gen_cphd
    r7 = gen_cphd.generate(os.path.join(GEN, 'CphdKernels.lean'))
    print('generated:', {'CphdKernels': r7['unsupported']})
    import gen_dispatch
    r8 = gen_dispatch.generate(os.path.join(GEN, 'Dispatch.lean'))
    print('generated:', {'Dispatch': r8['unsupported']})
    for extra in ('tables_xml',):
        try:
            mod = __import__(extra)
            mod.generate(os.path.join(GEN, 'XmlTables.lean'))
        except ImportError:
            pass


if __name__ == '__main__':
    main()
