"""Regenerate every Lean file that is derived from /repo's current source (run by setup and by each check).

One generator per line of GENERATORS: (module under translate/, output file under lean/SarpyModel/Gen/, what to print from its result).
A generator that raises is reported and the others still run: the check whose theorems need the missing file then fails closed."""
import os
import sys
import traceback
HERE = os.path.dirname(os.path.abspath(__file__))
sys.path.insert(0, HERE)
GEN = os.path.join(HERE, '..', 'lean', 'SarpyModel', 'Gen')


def _unsup(r):
    return r.get('unsupported') if isinstance(r, dict) else None


GENERATORS = [
    ('gen_slices', 'Slices.lean', _unsup),
    ('gen_nitf', 'NitfKernels.lean', _unsup),
    ('tables_nitf', 'NitfTables.lean', lambda r: len(r['tables'])),
    ('gen_kernels2', 'Kernels2.lean', _unsup),
    ('tables_nitf2', 'NitfTables2.lean', lambda r: {'descs': len(r['descs']), 'errors': r['errors'], 'mismatches': len(r['mismatches'])}),
    ('tables_tre', 'TreTables.lean', lambda r: {'tres': len(r['tres']), 'untranslated': r['untranslated'], 'defects': len(r['defects'])}),
    ('xsd2lean', 'XsdPairs.lean', lambda r: {k: r[k] for k in list(r)[:6] if not isinstance(r[k], (list, dict))}),
    ('gen_bounds', 'Bounds.lean', lambda r: {'unsupported': r['unsupported'], 'descriptors': r['descriptors'], 'contained': r['contained_pairs'], 'narrower': r['narrower_pairs']}),
    ('xsd_versions', 'XsdVersions.lean', lambda r: {f: d['features'] for f, d in r['families'].items()}),
    ('gen_geo', 'Geo.lean', _unsup),
    ('gen_nitf_orient', 'NitfOrient.lean', lambda r: {'unsupported': r['unsupported'], 'rows': r['rows']}),
    ('gen_life', 'Life.lean', _unsup),
    ('gen_checker', 'CheckerRules.lean', lambda r: {'unsupported': r['unsupported'], 'rules': len(r['rules'])}),
    ('gen_cphd', 'CphdKernels.lean', _unsup),
    ('gen_openers', 'Openers.lean', _unsup),
    ('gen_loops', 'Loops.lean', _unsup),
    ('gen_polyloops', 'PolyLoops.lean', _unsup),
    ('gen_dispatch', 'Dispatch.lean', _unsup),
    ('gen_hdr', 'Hdr.lean', _unsup),
    ('gen_segstate', 'SegState.lean', lambda r: {'unsupported': r['unsupported'], 'mutations': r['mutations'], 'acct': r['acct']}),
    ('gen_defaults', 'Defaults.lean', _unsup),
    ('tables_xml', 'XmlTables.lean', lambda r: None),
]


def main():
    os.makedirs(GEN, exist_ok=True)
    for mod, out, show in GENERATORS:
        if not os.path.exists(os.path.join(HERE, mod + '.py')):
            continue
        try:
            r = __import__(mod).generate(os.path.join(GEN, out))
            try:
                print('generated:', {out[:-5]: show(r)})
            except Exception:
                print('generated:', out)
        except Exception:
            print(f'generation of {out} by {mod} failed (the checks that need it will report):')
            traceback.print_exc(limit=3)


if __name__ == '__main__':
    main()
