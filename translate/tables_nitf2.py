"""Regenerate lean/SarpyModel/Gen/NitfTables2.lean (+ NitfTables2Defs.lean next to it): format descriptions
(Spec.FieldFmt2.Fmt) of the NITF element classes that have CONDITIONAL or LENGTH-PREFIXED parts, from the CURRENT sarpy source.
NitfTables2Defs.lean holds the descriptions (imported by the driver); NitfTables2.lean holds one kernel-decided well-formedness
theorem per description and the generic theorems of Props/C13x.lean instantiated on all of them.

Where each piece of a description comes from (the `src` tag of every field, also written as a comment in the Lean file):

  reflected    field order from `_ordering`, widths from `_lengths`, kinds from the descriptor classes
               (`_IntegerDescriptor` -> int, `_StringDescriptor`/`_StringEnumDescriptor` -> str, `_RawDescriptor` -> raw),
               binary fields from `_binary_format` (struct.calcsize, must be big-endian unsigned), nested element
               classes from `_NITFElementDescriptor.the_type`, loop count widths from `_count_size`, item-array widths
               from `_subhead_len/_item_len`, blob widths from `_size_len/_ofl_len`, band escape widths NBANDS_LEN/XBANDS_LEN
  ast          read off the syntax tree of the class's own code:
                 * kind and width of property-backed fields from the `_parse_str(value, w, ..)` / `_parse_int(value, w, ..)`
                   call in the property setter,
                 * the DECODER-side presence condition of a conditional field from `_parse_attribute`
                   (the `if <test>: fields['Y'] = None` statements: controlling field, ==/!=/in/not in, the compared
                   constants, whether `.strip()` is applied),
                 * the ENCODER-side presence condition from the property setters / `_get_attribute_length`
                   (`self._Y = None` under a test on `value`; `value = None` under a test on `self.X`;
                   `return 0 if self.X != c else ..`),
                 * the user-header class used by `_parse_attribute` (`<Class>.from_bytes(value, start)`)
  transcribed  stated by hand from reading the code (and cross-checked where a mechanical probe exists): the shape of the
               band LUT block (NLUTS, NELUT, LUTD), the NBANDS/XBANDS escape, the item arrays of the file header, the user
               header area (length, overflow, data), the mask tables and TPXCD (define_tpxcd_length is probed on 0..80
               against ceil(n/8)), the TRE envelope.

The decoder-side and the encoder-side condition of every conditional field are compared on a probe set of stored values
(each compared constant, with and without a leading blank, the empty string, other text).  The generated description uses
the decoder-side condition; a difference is returned under 'mismatches' (the harness turns it into a broken obligation and
the oracle looks for the failing instance).  A raw comparison without strip against a constant shorter than the field can
never be true on padded bytes and is normalised accordingly (this is what catches a dropped `.strip()`).

generate(path) -> {'descs': {name: tree}, 'params': {name: [param names]}, 'names': {name: {id: field}}, 'mismatches': [...],
                   'provenance': {...}, 'not_covered': {...}, 'changed': bool}
"""
import ast
import importlib
import inspect
import os
import struct
import textwrap

MODS = ['base', 'nitf_head', 'image', 'des', 'text', 'graphics', 'res', 'security', 'label', 'symbol']

# classes whose descriptions are generated, in dependency order (nested ones first)
TARGETS = [
    'NITFSecurityTags', 'NITFSecurityTags0',
    'UserHeaderType', 'DESUserHeader', 'RESUserHeader', 'UnknownTRE',
    'ImageComment', 'ImageComments', 'ImageBand', 'ImageBands',
    'ImageSegmentsType', 'GraphicsSegmentsType', 'TextSegmentsType', 'DataExtensionsType', 'ReservedExtensionsType',
    'SymbolSegmentsType', 'LabelSegmentsType',
    'XMLDESSubheader',
    'ImageSegmentHeader', 'ImageSegmentHeader0',
    'DataExtensionHeader', 'DataExtensionHeader0',
    'TextSegmentHeader', 'TextSegmentHeader0', 'GraphicsSegmentHeader',
    'ReservedExtensionHeader', 'ReservedExtensionHeader0',
    'NITFHeader', 'NITFHeader0',
    'MaskSubheader',
]
NOT_COVERED = {
    'LabelSegmentHeader': 'NITF 2.0 label subheader: descriptor width and _lengths disagree (LID 10 vs 7); byte-level oracle of c13.py only',
    'SymbolSegmentHeader': 'NITF 2.0 symbol subheader: DLUT code path cannot run (struct.unpack without format); byte-level oracle only',
    'TREHeader': 'not used by any header class',
    'TREList': 'a sequence of TRE envelopes filling a blob: covered by decodeAll_encodeAll on the UnknownTRE description',
    'registered TREs': 'field layout of the registered TRE classes: translated by translate/tables_tre.py (Gen/TreTables.lean), see notes/NOTES_TRE.md',
}
# property-backed fields whose setter does not reveal the kind (constant / derived fields)
HAND_KINDS = {('NITFHeader', 'FHDR'): 'str', ('NITFHeader', 'FVER'): 'str', ('NITFHeader', 'NUMX'): 'int', ('NITFHeader', 'HL'): 'int',
              ('NITFHeader0', 'FHDR'): 'str', ('NITFHeader0', 'FVER'): 'str', ('NITFHeader0', 'HL'): 'int',
              ('XMLDESSubheader', 'DESSHL'): 'int', ('XMLDESSubheader', 'DESCRC'): 'int'}


def classes():
    from sarpy.io.general.nitf_elements.base import BaseNITFElement
    out = {}
    for m in MODS:
        mod = importlib.import_module('sarpy.io.general.nitf_elements.' + m)
        for n, c in inspect.getmembers(mod, inspect.isclass):
            if issubclass(c, BaseNITFElement) and c.__module__ == mod.__name__:
                out[n] = c
    return out


# ---------------------------------------------------------------------------------------------- AST helpers

def _func_ast(f):
    if isinstance(f, (classmethod, staticmethod)):
        f = f.__func__
    try:
        return ast.parse(textwrap.dedent(inspect.getsource(f))).body[0]
    except (OSError, TypeError, SyntaxError, IndentationError):
        return None


def _own(cls, name):
    """the function object defined for `name` in the class itself or the nearest base below NITFElement"""
    from sarpy.io.general.nitf_elements.base import NITFElement
    for k in cls.__mro__:
        if k is NITFElement or k is object:
            return None
        if name in k.__dict__:
            return k.__dict__[name]
    return None


def _consts(node):
    """python constants of a Constant / Tuple / List / Set node, or None"""
    if isinstance(node, ast.Constant):
        return [node.value]
    if isinstance(node, (ast.Tuple, ast.List, ast.Set)):
        out = []
        for e in node.elts:
            if not isinstance(e, ast.Constant):
                return None
            out.append(e.value)
        return out
    return None


def _text(c):
    return c.decode('utf-8') if isinstance(c, bytes) else c


class Pred:
    """a predicate on one controlling field X: value (after `mode`) in / not in consts;  mode: 'exact' | 'strip' | 'num'"""

    def __init__(self, x, mode, consts, member):
        self.x, self.mode, self.consts, self.member = x, mode, [(_text(c) if mode != 'num' else c) for c in consts], member

    def negate(self):
        return Pred(self.x, self.mode, self.consts, not self.member)

    def on_stored(self, s):
        """evaluate on a stored value (what the object holds: text without trailing blanks, or an int)"""
        if self.mode == 'num':
            return (s in self.consts) == self.member
        t = s.strip() if self.mode == 'strip' else s
        return (t in self.consts) == self.member

    def on_raw(self, s, w):
        """evaluate as the decoder does: on the w raw characters of the field"""
        if self.mode == 'num':
            return (s in self.consts) == self.member
        raw = s.ljust(w)
        t = raw.strip() if self.mode == 'strip' else raw
        return (t in self.consts) == self.member

    def __repr__(self):
        return f'{self.x}{".strip()" if self.mode == "strip" else ""} {"in" if self.member else "not in"} {self.consts}'


def _parse_test(test, ctx_attr, left_kinds):
    """Compare node -> Pred (true when the test is true), or None.  left_kinds: how the controlling value may be written"""
    if isinstance(test, ast.BoolOp) and isinstance(test.op, ast.And):
        found = [p for p in (_parse_test(v, ctx_attr, left_kinds) for v in test.values) if p is not None]
        return found[0] if len(found) == 1 else None
    if not (isinstance(test, ast.Compare) and len(test.ops) == 1):
        return None
    op, left, right = test.ops[0], test.left, test.comparators[0]
    mode = 'exact'
    if isinstance(left, ast.Call) and isinstance(left.func, ast.Attribute) and left.func.attr == 'strip' and not left.args:
        mode, left = 'strip', left.func.value
    x = None
    if isinstance(left, ast.Name) and left.id in left_kinds.get('names', ()):
        x = ctx_attr
    elif isinstance(left, ast.Subscript) and isinstance(left.value, ast.Name) and left.value.id == 'fields' and 'fields' in left_kinds:
        sl = left.slice
        x = sl.value if isinstance(sl, ast.Constant) else None
    elif isinstance(left, ast.Attribute) and isinstance(left.value, ast.Name) and left.value.id == 'self' and 'self' in left_kinds:
        x = left.attr.lstrip('_')
    if x is None:
        return None
    cs = _consts(right)
    if cs is None or any(c is None for c in cs):
        return None
    if isinstance(op, (ast.Eq, ast.In)):
        member = True
    elif isinstance(op, (ast.NotEq, ast.NotIn)):
        member = False
    else:
        return None
    if all(isinstance(c, int) and not isinstance(c, bool) for c in cs):
        mode = 'num'
    elif not all(isinstance(c, (str, bytes)) for c in cs):
        return None
    return Pred(x, mode, cs, member)


def _assigns_none(stmts, target_kind):
    """names Y such that a statement of stmts is `fields['Y'] = None` / `self._Y = None` / `value = None`"""
    out = []
    for st in stmts:
        if isinstance(st, ast.Assign) and isinstance(st.value, ast.Constant) and st.value.value is None:
            for t in st.targets:
                if target_kind == 'fields' and isinstance(t, ast.Subscript) and isinstance(t.value, ast.Name) and t.value.id == 'fields' \
                        and isinstance(t.slice, ast.Constant):
                    out.append(t.slice.value)
                elif target_kind == 'self' and isinstance(t, ast.Attribute) and isinstance(t.value, ast.Name) and t.value.id == 'self':
                    out.append(t.attr.lstrip('_'))
                elif target_kind == 'value' and isinstance(t, ast.Name) and t.id == 'value':
                    out.append('value')
    return out


def _attr_guard(test, var):
    """`<var> == 'X'` -> 'X'"""
    if isinstance(test, ast.Compare) and len(test.ops) == 1 and isinstance(test.ops[0], ast.Eq) and isinstance(test.left, ast.Name) \
            and test.left.id == var and isinstance(test.comparators[0], ast.Constant):
        return test.comparators[0].value
    return None


def decoder_conditions(cls):
    """{Y: Pred that is true exactly when the decoder takes Y as PRESENT}, read off `_parse_attribute`"""
    fn = _func_ast(_own(cls, '_parse_attribute'))
    out = {}
    if fn is None:
        return out

    def walk(stmts, ctx):
        for st in stmts:
            if isinstance(st, ast.If):
                g = _attr_guard(st.test, 'attribute')
                if g is not None:
                    walk(st.body, g)
                    walk(st.orelse, ctx)
                    continue
                p = _parse_test(st.test, ctx, {'names': ('val',), 'fields': True})
                if p is not None:
                    for y in _assigns_none(st.body, 'fields'):
                        out[y] = p.negate()          # absent when the test holds
                    for y in _assigns_none(st.orelse, 'fields'):
                        out[y] = p                   # absent when the test fails
                walk(st.body, ctx)
                walk(st.orelse, ctx)
    walk(fn.body, None)
    return out


def encoder_conditions(cls):
    """{Y: [Pred true exactly when the encoder side keeps Y PRESENT, ...]} from setters and `_get_attribute_length`"""
    out = {}
    for k in cls.__mro__:
        if k.__name__ in ('NITFElement', 'BaseNITFElement', 'object'):
            break
        for name, obj in k.__dict__.items():
            if not (isinstance(obj, property) and obj.fset is not None):
                continue
            fn = _func_ast(obj.fset)
            if fn is None:
                continue
            for node in ast.walk(fn):
                if not isinstance(node, ast.If):
                    continue
                # pattern 1: in the setter of X, `if <test on value>: ... self._Y = None`
                p = _parse_test(node.test, name, {'names': ('value',)})
                if p is not None:
                    for y in _assigns_none(node.body, 'self'):
                        if y != name:
                            out.setdefault(y, []).append(p.negate())
                    for y in _assigns_none(node.orelse, 'self'):
                        if y != name:
                            out.setdefault(y, []).append(p)
                # pattern 2: in the setter of Y, `if value is not None and <test on self.X>: value = None`
                p = _parse_test(node.test, None, {'self': True})
                if p is not None and _assigns_none(node.body, 'value'):
                    out.setdefault(name, []).append(p.negate())
    fn = _func_ast(_own(cls, '_get_attribute_length'))
    if fn is not None:
        argname = fn.args.args[1].arg if len(fn.args.args) > 1 else 'fld'

        def walk(stmts, ctx):
            for st in stmts:
                if isinstance(st, ast.If):
                    g = _attr_guard(st.test, argname)
                    walk(st.body, g if g is not None else ctx)
                    walk(st.orelse, ctx)
                elif isinstance(st, ast.Return) and isinstance(st.value, ast.IfExp) and ctx is not None:
                    # pattern 3: `return 0 if self.X != c else w`
                    ie = st.value
                    p = _parse_test(ie.test, None, {'self': True})
                    if p is not None and p.x != ctx:
                        if isinstance(ie.body, ast.Constant) and ie.body.value == 0:
                            out.setdefault(ctx, []).append(p.negate())
                        elif isinstance(ie.orelse, ast.Constant) and ie.orelse.value == 0:
                            out.setdefault(ctx, []).append(p)
        walk(fn.body, None)
    return out


def setter_kind(cls, fld):
    """('str'|'int', width) from the `_parse_str/_parse_int(value, w, ...)` call in the property setter, or None"""
    for k in cls.__mro__:
        obj = k.__dict__.get(fld)
        if isinstance(obj, property) and obj.fset is not None:
            fn = _func_ast(obj.fset)
            if fn is None:
                return None
            for node in ast.walk(fn):
                if isinstance(node, ast.Call) and isinstance(node.func, ast.Name) and node.func.id in ('_parse_str', '_parse_int') \
                        and len(node.args) >= 2 and isinstance(node.args[1], ast.Constant):
                    return ('str' if node.func.id == '_parse_str' else 'int'), node.args[1].value
            return None
    return None


def parse_attribute_class(cls, fld, cls_all):
    """the class X in `X.from_bytes(value, start)` inside the `attribute == fld` branch of `_parse_attribute`"""
    fn = _func_ast(_own(cls, '_parse_attribute'))
    if fn is None:
        return None
    for node in ast.walk(fn):
        if isinstance(node, ast.If) and _attr_guard(node.test, 'attribute') == fld:
            for sub in ast.walk(ast.Module(body=node.body, type_ignores=[])):
                if isinstance(sub, ast.Call) and isinstance(sub.func, ast.Attribute) and sub.func.attr == 'from_bytes' \
                        and isinstance(sub.func.value, ast.Name) and sub.func.value.id in cls_all:
                    return cls_all[sub.func.value.id]
    return None


# ---------------------------------------------------------------------------------------------- description trees

class Builder:
    def __init__(self):
        self.cls_all = classes()
        self.descs = {}        # name -> tree
        self.params = {}       # name -> [param names]
        self.base = {}         # name -> id base
        self.mismatches = []
        self.prov = {}         # name -> {field: src}
        self.notes = []

    # names are numbered  100 * (class index + 1) + field index  (parameters: 1, 2): unique over all descriptions
    def fid(self, cname, idx):
        return self.base[cname] + idx

    def field_width(self, cls, fld):
        return cls._lengths.get(fld)

    def presence(self, cls, y):
        """(cond tree over field names, src) for a conditional field y, from the decoder side; cross-checked with the encoder side"""
        dec = decoder_conditions(cls).get(y)
        encs = encoder_conditions(cls).get(y, [])
        if dec is None:
            return None, encs
        w = cls._lengths.get(dec.x)
        if dec.mode == 'num':
            probes = [0, 1, 4]
        else:
            base = set(c.rstrip() for c in dec.consts)
            for e in encs:
                if e.mode != 'num':
                    base |= set(c.rstrip() for c in e.consts)
            probes = set(base) | {'', 'X' * min(w or 1, 3), 'Z'}
            for c in base:
                if c and len(c) < (w or 0):
                    probes.add(' ' + c)
            probes = sorted(p for p in probes if len(p) <= (w or 99) and p == p.rstrip())
        # lean condition equivalent to the decoder's test on the raw field
        if dec.mode == 'num':
            if dec.consts == [0] and not dec.member:
                cond = ('pos', dec.x)
            elif dec.consts == [0] and dec.member:
                cond = ('not', ('pos', dec.x))
            else:
                raise ValueError(f'{cls.__name__}.{y}: unsupported numeric condition {dec}')
        else:
            if dec.mode == 'strip':
                cs = sorted(set(c.strip() for c in dec.consts))
                cond = ('strIn', dec.x, True, cs)
            else:
                cs = sorted(set(c.rstrip() for c in dec.consts if len(c) == w))
                cond = ('strIn', dec.x, False, cs)
            if not dec.member:
                cond = ('not', cond)
        # self-check of the normalisation, and comparison with the encoder side
        for p in probes:
            if eval_cond_py(cond, {dec.x: p}) != dec.on_raw(p, w):
                raise ValueError(f'{cls.__name__}.{y}: normalised condition disagrees with the decoder test on {p!r}')
        for e in encs:
            if e.x != dec.x:
                self.mismatches.append({'class': cls.__name__, 'field': y, 'decoder': repr(dec), 'encoder': repr(e), 'witness': None,
                                        'key': f'{cls.__name__}.{dec.x}:conditional-presence-differs-between-encoder-and-decoder'})
                continue
            bad = sorted((p for p in probes if e.on_stored(p) != dec.on_raw(p, w)), key=lambda p: (p == '' or p == 0, p))
            if bad:
                self.mismatches.append({'class': cls.__name__, 'field': y, 'control': dec.x, 'decoder': repr(dec), 'encoder': repr(e), 'witness': bad[0],
                                        'key': f'{cls.__name__}.{dec.x}:conditional-presence-differs-between-encoder-and-decoder'})
        return cond, encs

    def leaf_of(self, cls, fld):
        """(node, src) for a fixed-width field"""
        from sarpy.io.general.nitf_elements import base as B
        w = cls._lengths[fld]
        bf = getattr(cls, '_binary_format', {}) or {}
        if fld in bf:
            fmt = bf[fld]
            if not (fmt[0] == '>' and fmt[1:] in ('B', 'H', 'I', 'Q')) or struct.calcsize(fmt) != w:
                raise ValueError(f'{cls.__name__}.{fld}: binary format {fmt!r} / width {w} not supported')
            return ('bin', w), 'reflected'
        d = None
        for k in cls.__mro__:
            if fld in k.__dict__:
                d = k.__dict__[fld]
                break
        if isinstance(d, B._IntegerDescriptor):
            return ('int', w), 'reflected'
        if isinstance(d, (B._StringDescriptor, B._StringEnumDescriptor)):
            return ('str', w), 'reflected'
        if isinstance(d, B._RawDescriptor):
            return ('raw', ('lit', w)), 'reflected'
        if isinstance(d, property):
            sk = setter_kind(cls, fld)
            if sk is not None:
                if sk[1] != w:
                    raise ValueError(f'{cls.__name__}.{fld}: setter width {sk[1]} != _lengths {w}')
                return (sk[0], w), 'ast'
            hk = HAND_KINDS.get((cls.__name__, fld))
            if hk is not None:
                return (hk, w), 'transcribed'
        raise ValueError(f'{cls.__name__}.{fld}: cannot determine the field kind')

    def element_node(self, the_type):
        """node for a nested element class"""
        from sarpy.io.general.nitf_elements import base as B
        n = the_type.__name__
        if n in self.descs:
            return ('ref', n)
        raise ValueError(f'nested class {n} has no description (add it to TARGETS before its users)')

    def build(self, name):
        from sarpy.io.general.nitf_elements import base as B
        from sarpy.io.general.nitf_elements import image as I
        cls = self.cls_all[name]
        self.base[name] = 100 * (len(self.base) + 1)
        self.params[name] = []
        prov = self.prov.setdefault(name, {})
        fields = []      # (field name, node, src, via)

        def add(fname, node, src, via=None):
            fields.append({'name': fname, 'node': node, 'src': src, 'via': via or 'attr'})
            prov[fname] = src

        if issubclass(cls, B.UserHeaderType):
            tree = ('blob', cls._size_len, cls._ofl_len)
            prov['(area)'] = 'widths reflected (_size_len, _ofl_len); layout transcribed from UserHeaderType._get_attribute_bytes/_parse_attribute'
        elif issubclass(cls, B.Unstructured):
            tree = ('blob', cls._size_len, 0)
            prov['(area)'] = 'width reflected (_size_len); layout transcribed from Unstructured._get_attribute_bytes/_parse_attribute'
        elif name == 'UnknownTRE':
            add('TAG', ('str', 6), 'transcribed', 'tre_tag')
            add('EL', ('int', 5), 'transcribed', 'tre_len')
            add('DATA', ('raw', ('var', 'EL')), 'transcribed', 'tre_data')
            tree = ('rec', fields)
        elif issubclass(cls, B._ItemArrayHeaders):
            item = ('rec', [{'name': 'LSH', 'node': ('int', int(cls._subhead_len)), 'src': 'reflected', 'via': 'item0'},
                            {'name': 'LI', 'node': ('int', int(cls._item_len)), 'src': 'reflected', 'via': 'item1'}])
            add('NUM', ('int', 3), 'transcribed', 'itemarray_count')
            add('items', ('loop', ('var', 'NUM'), item), 'transcribed', 'itemarray_items')
            tree = ('rec', fields)
        elif issubclass(cls, I.ImageBands):
            if '_parse_count' not in cls.__dict__:
                raise ValueError('ImageBands no longer overrides _parse_count: re-read the code')
            add('NBANDS', ('int', int(cls.NBANDS_LEN)), 'transcribed', 'bands_n')
            add('XBANDS', ('cond', ('not', ('pos', 'NBANDS')), ('int', int(cls.XBANDS_LEN))), 'transcribed', 'bands_x')
            add('values', ('loop', ('ite', ('pos', 'NBANDS'), ('var', 'NBANDS'), ('var', 'XBANDS')), self.element_node(cls._child_class)),
                'transcribed', 'loop_values')
            tree = ('rec', fields)
        elif issubclass(cls, B.NITFLoop):
            if any(m in k.__dict__ for k in cls.__mro__[:cls.__mro__.index(B.NITFLoop)] for m in ('_parse_count', 'from_bytes', 'to_bytes', '_counts_bytes')):
                raise ValueError(f'{name}: loop with hand-written count logic needs a transcription')
            add('COUNT', ('int', int(cls._count_size)), 'reflected', 'loop_count')
            add('values', ('loop', ('var', 'COUNT'), self.element_node(cls._child_class)), 'reflected', 'loop_values')
            tree = ('rec', fields)
        elif name == 'MaskSubheader':
            self.params[name] = ['band_depth', 'blocks']
            for n in range(0, 81):
                if cls.define_tpxcd_length(n) != -(-n // 8):
                    raise ValueError('MaskSubheader.define_tpxcd_length is no longer ceil(n/8)')
            dconds = decoder_conditions(cls)
            for fld in cls._ordering:
                if fld in cls._lengths:
                    node, src = self.leaf_of(cls, fld)
                    add(fld, node, src)
                elif fld == 'TPXCD':
                    add(fld, ('raw', ('ceilDiv', ('var', 'TPXCDLNTH'), 8)), 'transcribed (define_tpxcd_length probed against ceil(n/8))', 'mask_tpxcd')
                elif fld in ('BMR', 'TMR'):
                    cond, _ = self.presence(cls, fld)
                    if cond is None:
                        raise ValueError(f'MaskSubheader.{fld}: decoder-side presence test not found')
                    add(fld, ('cond', cond, ('loop', ('mul', ('var', 'band_depth'), ('var', 'blocks')), ('bin', 4))),
                        'condition ast (_parse_attribute); table shape transcribed', 'mask_table')
                else:
                    raise ValueError(f'MaskSubheader.{fld}: unexpected field')
            tree = ('rec', fields)
        elif name == 'ImageBand':
            for fld in cls._ordering:
                if fld in cls._lengths:
                    node, src = self.leaf_of(cls, fld)
                    add(fld, node, src)
                elif fld == 'LUTD':
                    add('NLUTS', ('int', 1), 'transcribed', 'lut_n')
                    add('NELUT', ('cond', ('pos', 'NLUTS'), ('int', 5)), 'transcribed', 'lut_ne')
                    add('LUTD', ('cond', ('pos', 'NLUTS'), ('raw', ('mul', ('var', 'NLUTS'), ('var', 'NELUT')))), 'transcribed', 'lut_data')
                else:
                    raise ValueError(f'ImageBand.{fld}: unexpected field')
            tree = ('rec', fields)
        elif issubclass(cls, B.NITFElement):
            dconds = decoder_conditions(cls)
            econds = encoder_conditions(cls)
            for fld in cls._ordering:
                d = None
                for k in cls.__mro__:
                    if fld in k.__dict__:
                        d = k.__dict__[fld]
                        break
                if fld in cls._lengths:
                    node, src = self.leaf_of(cls, fld)
                    if fld in dconds or fld in econds:
                        cond, _ = self.presence(cls, fld)
                        if cond is None:
                            # only the encoder side has a condition: use it, and say so
                            e = econds[fld][0]
                            self.mismatches.append({'class': name, 'field': fld, 'decoder': 'always present', 'encoder': repr(e), 'witness': None,
                                                    'key': f'{name}.{e.x}:conditional-presence-differs-between-encoder-and-decoder'})
                            add(fld, node, src)
                        else:
                            add(fld, ('cond', cond, node), src + '; condition ast (_parse_attribute, cross-checked with setters)', 'cond_attr')
                    else:
                        add(fld, node, src)
                elif isinstance(d, B._NITFElementDescriptor):
                    add(fld, self.element_node(d.the_type), 'reflected', 'element')
                elif isinstance(d, property):
                    sub = parse_attribute_class(cls, fld, self.cls_all)
                    if sub is None:
                        raise ValueError(f'{name}.{fld}: property-backed element without a recognisable _parse_attribute branch')
                    add(fld, self.element_node(sub), 'ast', 'element')
                else:
                    raise ValueError(f'{name}.{fld}: cannot describe this field')
            tree = ('rec', fields)
        else:
            raise ValueError(f'{name}: unsupported class')
        self.descs[name] = tree
        return tree


def eval_cond_py(cond, env):
    """python mirror of Spec.FieldFmt2.Cond.eval on stored values (used for the translator's self-check and by the harness)"""
    k = cond[0]
    if k == 'strIn':
        v = env.get(cond[1])
        if not isinstance(v, str):
            return False
        return (v.lstrip() if cond[2] else v) in cond[3]
    if k == 'pos':
        v = env.get(cond[1])
        return isinstance(v, int) and v > 0
    if k == 'not':
        return not eval_cond_py(cond[1], env)
    if k == 'and':
        return eval_cond_py(cond[1], env) and eval_cond_py(cond[2], env)
    raise ValueError(k)


# ---------------------------------------------------------------------------------------------- Lean emission

def _bytes_lit(s):
    return '[' + ', '.join(str(b) for b in s.encode('utf-8')) + ']'


class Emitter:
    def __init__(self, builder):
        self.b = builder
        self.names = {}     # class -> {id: field name}

    def cond(self, c, scope):
        k = c[0]
        if k == 'strIn':
            return f'(.strIn {scope[c[1]]} {"true" if c[2] else "false"} [{", ".join(_bytes_lit(x) for x in c[3])}])'
        if k == 'pos':
            return f'(.pos {scope[c[1]]})'
        if k == 'not':
            return f'(.not {self.cond(c[1], scope)})'
        if k == 'and':
            return f'(.and {self.cond(c[1], scope)} {self.cond(c[2], scope)})'
        raise ValueError(k)

    def expr(self, e, scope):
        k = e[0]
        if k == 'lit':
            return f'(.lit {e[1]})'
        if k == 'var':
            return f'(.var {scope[e[1]]})'
        if k in ('mul', 'add'):
            return f'(.{k} {self.expr(e[1], scope)} {self.expr(e[2], scope)})'
        if k == 'ceilDiv':
            return f'(.ceilDiv {self.expr(e[1], scope)} {e[2]})'
        if k == 'ite':
            return f'(.ite {self.cond(e[1], scope)} {self.expr(e[2], scope)} {self.expr(e[3], scope)})'
        raise ValueError(k)

    def node(self, n, scope, cname, counter):
        k = n[0]
        if k in ('int', 'str', 'bin'):
            return f'(.{k} {n[1]})'
        if k == 'raw':
            return f'(.raw {self.expr(n[1], scope)})'
        if k == 'blob':
            return f'(.blob {n[1]} {n[2]})'
        if k == 'ref':
            return f'd_{n[1]}'
        if k == 'cond':
            return f'(.cond {self.cond(n[1], scope)} {self.node(n[2], scope, cname, counter)})'
        if k == 'loop':
            return f'(.loop {self.expr(n[1], scope)} {self.node(n[2], scope, cname, counter)})'
        if k == 'rec':
            # every condition is resolved against ALL fields of its record (and the enclosing scope), as the python code can
            # look at any attribute; whether it only looks at EARLIER ones is what the Lean well-formedness theorem decides
            sc = dict(scope)
            ids = []
            for f in n[1]:
                counter[0] += 1
                fid = self.b.base[cname] + counter[0]
                self.names[cname][fid] = f['name']
                ids.append(fid)
                sc[f['name']] = fid
            parts = [(fid, self.node(f['node'], sc, cname, counter), f) for fid, f in zip(ids, n[1])]
            out = '.unit'
            for fid, txt, f in reversed(parts):
                out = f'(.seq {fid} {txt}\n    {out})'
            return out
        raise ValueError(k)

    def emit(self, name):
        self.names[name] = {}
        scope = {p: i + 1 for i, p in enumerate(self.b.params[name])}
        return self.node(self.b.descs[name], scope, name, [0])


def generate(path):
    b = Builder()
    errors = {}
    for n in TARGETS:
        if n not in b.cls_all:
            errors[n] = 'class no longer exists'
            continue
        try:
            b.build(n)
        except Exception as e:   # fail closed: the class has no description, the harness reports the missing table
            errors[n] = f'{type(e).__name__}: {e}'
    em = Emitter(b)
    head = ['-- GENERATED by translate/tables_nitf2.py from /repo (do not edit; regenerated on every check run)',
            '-- provenance of every field: reflected / ast / transcribed, see translate/tables_nitf2.py']
    # file 1 (imported by the driver): the descriptions only, so that a failing theorem can never take the driver down
    lines = head + ['import SarpyModel.Spec.FieldFmt2', 'namespace Sarpy.Gen.Nitf2', 'open Sarpy.Spec.FieldFmt2', '']
    # file 2 (`path`): the kernel-decided well-formedness theorems and the generic theorems instantiated on every table
    thms = head + ['import SarpyModel.Gen.NitfTables2Defs', 'import SarpyModel.Props.C13x', 'namespace Sarpy.Gen.Nitf2',
                   'open Sarpy.Spec.FieldFmt2', 'open Sarpy.Spec.FieldFmt (Bytes)', '']
    done = []
    for n in TARGETS:
        if n not in b.descs:
            continue
        body = em.emit(n)
        ps = '[' + ', '.join(str(i + 1) for i in range(len(b.params[n]))) + ']'
        lines.append(f'/-- {n}' + (f' (parameters {", ".join(f"{i + 1} = {p}" for i, p in enumerate(b.params[n]))})' if b.params[n] else '') + ':')
        for fid, fname in sorted(em.names[n].items()):
            lines.append(f'     {fid} = {fname}  [{b.prov[n].get(fname, "nested")}]')
        for k, v in b.prov[n].items():
            if k.startswith('('):
                lines.append(f'     {k} {v}')
        lines.append('-/')
        lines.append(f'def d_{n} : Fmt :=\n  {body}')
        lines.append(f'def p_{n} : List Name := {ps}')
        lines.append('')
        thms.append(f'theorem d_{n}_wf : wellFormed d_{n} p_{n} = true := by decide +kernel')
        done.append(n)
    lines.append('def tables : List (String × List Name × Fmt) := [')
    lines.append(',\n'.join(f'  ("{n}", p_{n}, d_{n})' for n in done))
    lines.append(']')
    lines.append('')
    lines.append('end Sarpy.Gen.Nitf2')
    thms += ['',
             '/-- every generated description is well formed (kernel-decided) -/',
             'theorem tables_wf : tables.all (fun t => wellFormed t.2.2 t.2.1) = true := by decide +kernel',
             '',
             '/-- hence the generic theorems of Props/C13x.lean hold for the tables of the current tree -/',
             'theorem tables_round_trip : ∀ t ∈ tables, ∀ (env0 : Env) (v : Val) (rest : Bytes), accept env0 t.2.2 v = true →',
             '    decode env0 t.2.2 (encode env0 t.2.2 v ++ rest) = some (v, rest) ∧ (encode env0 t.2.2 v).length = length env0 t.2.2 v := by',
             '  intro t ht env0 v rest ha',
             '  exact ⟨Sarpy.Props.C13x.decode_encode (List.all_eq_true.mp tables_wf t ht) env0 ha rest, Sarpy.Props.C13x.encode_length env0 _ ha⟩',
             '',
             'theorem tables_reencode : ∀ t ∈ tables, ∀ (env0 : Env) (bs : Bytes), conformant env0 t.2.2 bs = true →',
             '    ∃ v rest, decode env0 t.2.2 bs = some (v, rest) ∧ accept env0 t.2.2 v = true ∧ encode env0 t.2.2 v ++ rest = bs := by',
             '  intro t ht env0 bs hc',
             '  exact Sarpy.Props.C13x.reencode_conformant (List.all_eq_true.mp tables_wf t ht) env0 hc',
             '',
             'end Sarpy.Gen.Nitf2']
    changed = False
    for pth, txt in ((os.path.join(os.path.dirname(path), 'NitfTables2Defs.lean'), '\n'.join(lines) + '\n'), (path, '\n'.join(thms) + '\n')):
        old = open(pth).read() if os.path.exists(pth) else None
        if old != txt:
            changed = True
            with open(pth, 'w') as f:
                f.write(txt)
    return {'descs': b.descs, 'params': b.params, 'names': em.names, 'mismatches': b.mismatches, 'provenance': b.prov,
            'errors': errors, 'not_covered': NOT_COVERED, 'wf_theorems': [f'd_{n}_wf' for n in done] + ['tables_wf', 'tables_round_trip', 'tables_reencode'], 'changed': changed}


if __name__ == '__main__':
    here = os.path.dirname(os.path.abspath(__file__))
    r = generate(os.path.join(here, '..', 'lean', 'SarpyModel', 'Gen', 'NitfTables2.lean'))
    print('described:', sorted(r['descs']))
    print('errors:', r['errors'])
    for m in r['mismatches']:
        print('MISMATCH', m)
