"""Regenerate lean/SarpyModel/Gen/NitfTables.lean by reflection on sarpy's NITF element classes.

A class is *table-driven* when every byte it writes comes from the generic NITFElement machinery over
fixed-width descriptors (possibly through nested table-driven elements, which are inlined).  Classes that
override any of the byte-level methods are listed as overrides: they are outside the generic theorem and are
covered by correspondence only."""
import importlib
import inspect
import os

MODS = ['base', 'nitf_head', 'image', 'des', 'text', 'graphics', 'res', 'security', 'label', 'symbol']
BYTE_METHODS = ('_get_attribute_bytes', '_get_attribute_length', '_parse_attribute', 'from_bytes', 'to_bytes', 'get_bytes_length')


def classes():
    from sarpy.io.general.nitf_elements.base import BaseNITFElement
    out = {}
    for m in MODS:
        mod = importlib.import_module('sarpy.io.general.nitf_elements.' + m)
        for n, c in inspect.getmembers(mod, inspect.isclass):
            if issubclass(c, BaseNITFElement) and c.__module__ == mod.__name__:
                out[n] = c
    return out


def overrides(c):
    from sarpy.io.general.nitf_elements.base import NITFElement
    ov = []
    for k in c.__mro__:
        if k is NITFElement:
            break
        ov += [m for m in BYTE_METHODS if m in k.__dict__]
    return sorted(set(ov))


def table_of(c, cls_all, depth=0):
    """list of (name, kind, width, extra) or None if not table-driven"""
    from sarpy.io.general.nitf_elements import base as B
    if not issubclass(c, B.NITFElement) or issubclass(c, B.NITFLoop) or overrides(c) or getattr(c, '_binary_format', None):
        return None
    rows = []
    for fld in c._ordering:
        d = c.__dict__.get(fld) or getattr(c, fld, None)
        if fld in c._lengths:
            w = c._lengths[fld]
            if isinstance(d, B._IntegerDescriptor):
                rows.append((fld, 'int', w, None))
            elif isinstance(d, B._StringEnumDescriptor):
                rows.append((fld, 'str', w, sorted(d.values)))
            elif isinstance(d, B._StringDescriptor):
                rows.append((fld, 'str', w, None))
            elif isinstance(d, B._RawDescriptor):
                rows.append((fld, 'raw', w, None))
            else:
                return None
            if getattr(d, 'length', w) != w:
                return None   # descriptor width and _lengths disagree: leave to the correspondence check
        elif isinstance(d, B._NITFElementDescriptor):
            sub = table_of(d.the_type, cls_all, depth + 1)
            if sub is None:
                return None
            rows += [(fld + '.' + n, k, w, e) for n, k, w, e in sub]
        else:
            return None
    return rows


def descriptor_of(c, fld):
    for k in c.__mro__:
        if fld in k.__dict__:
            return k.__dict__[fld]
    return None


def descriptors(cls_all=None):
    """every fixed-width descriptor-backed field of every element class:
    {'Class.FIELD': {'kind': 'str'|'enum'|'int'|'raw', 'width': descriptor width, 'render_width': width used by to_bytes,
                     'values': [...], 'default': str|None, 'binary': struct format or None}}"""
    from sarpy.io.general.nitf_elements import base as B
    cls_all = cls_all or classes()
    out = {}
    for n, c in sorted(cls_all.items()):
        if not issubclass(c, B.NITFElement):
            continue
        for fld in c._ordering:
            d = descriptor_of(c, fld)
            if not isinstance(d, B._BasicDescriptor) or d.length is None:
                continue
            if isinstance(d, B._StringEnumDescriptor):
                kind = 'enum'
            elif isinstance(d, B._StringDescriptor):
                kind = 'str'
            elif isinstance(d, B._IntegerDescriptor):
                kind = 'int'
            elif isinstance(d, B._RawDescriptor):
                kind = 'raw'
            else:
                continue
            out[f'{n}.{fld}'] = {'class': n, 'field': fld, 'kind': kind, 'width': int(d.length), 'render_width': c._lengths.get(fld),
                                 'values': sorted(d.values) if kind == 'enum' else None,
                                 'default': d._default_value if kind == 'enum' else None,
                                 'binary': getattr(c, '_binary_format', {}).get(fld)}
    return out


def _blit(s):
    return '[' + ', '.join(str(b) for b in s.encode('utf-8')) + ']'


def lean_desc(d):
    if d['kind'] == 'enum':
        dv = 'none' if d['default'] is None else f'(some {_blit(d["default"])})'
        return f'(.enum {d["width"]} [{", ".join(_blit(v) for v in d["values"])}] {dv})'
    return f'(.{d["kind"]} {d["width"]})'


def generate_descs(path, cls_all):
    """Gen/NitfDescs.lean: the descriptors of the current tree as `Spec.NitfAssign.Desc`, their well-formedness decided by the kernel,
    and the assignment theorems of Props/C13a.lean instantiated on all of them"""
    descs = descriptors(cls_all)
    lines = ['-- GENERATED by translate/tables_nitf.py from /repo (do not edit; regenerated on every check run)',
             'import SarpyModel.Props.C13a', 'namespace Sarpy.Gen.NitfDescs', 'open Sarpy.Spec.FieldFmt Sarpy.Spec.NitfAssign', '',
             'def descs : List (String × Desc) := [']
    lines.append(',\n'.join(f'  ("{k}", {lean_desc(d)})' for k, d in descs.items()))
    lines += [']', '',
              '/-- every enumerated value and default of the current classes fits its field (kernel-decided) -/',
              'theorem descs_wf : descs.all (fun d => wfDesc d.2) = true := by decide +kernel',
              '',
              '/-- for every descriptor of the current tree and every assigned input: what is stored renders to exactly the declared width,',
              '    and the bytes of the neighbouring field are left alone -/',
              'theorem descs_renderable : ∀ d ∈ descs, ∀ (x : Input) (v : Stored), assign d.2 x = some v →',
              '    (render d.2 v).length = d.2.width ∧ ∀ next : Bytes, (render d.2 v ++ next).drop d.2.width = next := by',
              '  intro d hd x v ha',
              '  have hw := List.all_eq_true.mp descs_wf d hd',
              '  exact ⟨Sarpy.Props.C13a.assign_renderable hw ha, fun next => (Sarpy.Props.C13a.assign_never_overflows hw ha next).2⟩',
              '', 'end Sarpy.Gen.NitfDescs']
    text = '\n'.join(lines) + '\n'
    old = open(path).read() if os.path.exists(path) else None
    if old != text:
        with open(path, 'w') as f:
            f.write(text)
    return descs


# ---------------------------------------------------------------------------------------------- count / length slots

def _fn_ast(f):
    import ast
    import textwrap
    f = getattr(f, 'fset', f)
    f = getattr(f, '__func__', f)
    try:
        return ast.parse(textwrap.dedent(inspect.getsource(f))).body[0]
    except (OSError, TypeError, SyntaxError, IndentationError):
        return None


def setter_limits(func, cls):
    """`if <subject> > <bound>: raise ...` tests of a setter: [(subject source, bound value)].  Bounds may be literals or names assigned
    earlier in the function from class constants (`siz_lim = 10**self._size_len - 1`); a flag variable set from such a comparison
    (`len_cond = (len(value) > siz_lim)`) followed by `if len_cond: raise` counts too."""
    import ast
    fn = _fn_ast(func)
    if fn is None:
        return None
    env = {}
    flags = {}
    out = []

    def ev(node):
        src = ast.unparse(node)
        try:
            return eval(compile(ast.Expression(node), '<limit>', 'eval'), {'__builtins__': {'getattr': getattr, 'int': int}, 'self': cls}, dict(env))
        except Exception:
            raise ValueError('bound is not a class constant: ' + src)

    def compare1(node):
        if isinstance(node, ast.Compare) and len(node.ops) == 1 and isinstance(node.ops[0], (ast.Gt, ast.GtE)):
            try:
                bound = ev(node.comparators[0])
            except ValueError:
                return None
            if isinstance(node.ops[0], ast.GtE):
                bound -= 1
            return ast.unparse(node.left), int(bound)
        return None

    def compares(node):
        """upper-bound comparisons anywhere in a test: `a > c`, `numpy.any(a > c)`, `p or q`"""
        found = []
        for sub in ast.walk(node):
            c = compare1(sub)
            if c is not None:
                found.append(c)
        return found

    def compare(node):
        c = compares(node)
        return c[0] if c else None
    for st in ast.walk(fn):
        if isinstance(st, ast.Assign) and len(st.targets) == 1 and isinstance(st.targets[0], ast.Name):
            c = compare(st.value)
            if c is not None:
                flags.setdefault(st.targets[0].id, []).append(c)
            else:
                try:
                    env[st.targets[0].id] = ev(st.value)
                except ValueError:
                    pass
    for st in ast.walk(fn):
        if isinstance(st, ast.If) and any(isinstance(b, ast.Raise) for b in st.body):
            cs = compares(st.test)
            if cs:
                out += cs
            elif isinstance(st.test, ast.Name) and st.test.id in flags:
                out += flags[st.test.id]
    return out


def _format_width(func, what):
    """width of the `{..:0Nd}` in a format string literal of the function, N literal"""
    import ast
    import re
    fn = _fn_ast(func)
    if fn is None:
        return None
    for n in ast.walk(fn):
        if isinstance(n, ast.Constant) and isinstance(n.value, str):
            m = re.findall(r'\{' + what + r':0(\d+)d\}', n.value)
            if m:
                return int(m[0])
    return None


def slots(cls_all=None):
    """every loop-count field and every length field of the element classes and of the TRE envelope:
    {'name': {'width': digits, 'extra': what the encoder adds to what the setter looks at, 'limit': the setter's bound or None,
              'subject': what the setter measures, 'src': where each number comes from}}"""
    from sarpy.io.general.nitf_elements import base as B
    from sarpy.io.general.nitf_elements.image import ImageBand
    cls_all = cls_all or classes()
    out = {}

    def pick(lims, *needles):
        for subj, bound in lims or []:
            if any(n in subj for n in needles):
                return subj, bound
        return None, None
    for n, c in sorted(cls_all.items()):
        if issubclass(c, B.NITFLoop) and c._child_class is not None:
            # the widest count the class can announce: ImageBands escapes to XBANDS_LEN digits
            w = int(getattr(c, 'XBANDS_LEN', c._count_size))
            lims = []
            for k in c.__mro__:
                if 'values' in k.__dict__ and isinstance(k.__dict__['values'], property):
                    lims += setter_limits(k.__dict__['values'], c) or []
            subj, lim = pick(lims, 'len(value)')
            out[f'{n}.count'] = {'width': w, 'extra': 0, 'limit': lim, 'subject': 'len(values)',
                                 'src': 'width: XBANDS_LEN / _count_size (reflected); limit: AST of the values setters'}
        elif issubclass(c, B._ItemArrayHeaders) and c is not B._ItemArrayHeaders:
            w = _format_width(c.to_bytes, '0') or 3
            lims = setter_limits(B._ItemArrayHeaders.__init__, c) or []
            out[f'{n}.count'] = {'width': w, 'extra': 0, 'limit': pick(lims, 'subhead_sizes.size', 'item_sizes.size')[1], 'subject': 'subhead_sizes.size',
                                 'src': "width: '{0:03d}' in to_bytes (AST); limit: AST of __init__"}
            out[f'{n}.subhead_size'] = {'width': int(c._subhead_len), 'extra': 0, 'limit': ([b for s_, b in lims if s_ == 'subhead_sizes'] or [None])[0],
                                        'subject': 'subhead_sizes[i]', 'src': 'width: _subhead_len (reflected); limit: AST of __init__'}
            out[f'{n}.item_size'] = {'width': int(c._item_len), 'extra': 0, 'limit': ([b for s_, b in lims if s_ == 'item_sizes'] or [None])[0],
                                     'subject': 'item_sizes[i]', 'src': 'width: _item_len (reflected); limit: AST of __init__'}
        elif issubclass(c, B.Unstructured) and isinstance(getattr(c, '_size_len', None), int):
            lims = setter_limits(B.Unstructured.__dict__['data'], c) if 'data' not in c.__dict__ else setter_limits(c.__dict__['data'], c)
            subj, lim = pick(lims, 'len(value)', 'get_bytes_length')
            extra = int(getattr(c, '_ofl_len', 0)) if issubclass(c, B.UserHeaderType) else 0
            out[f'{n}.length'] = {'width': int(c._size_len), 'extra': extra, 'limit': lim, 'subject': 'len(data)',
                                  'src': 'width: _size_len, extra: _ofl_len (reflected); limit: AST of the data setter (' + str(subj) + ')'}
    lims = setter_limits(ImageBand.__dict__['LUTD'], ImageBand)
    out['ImageBand.NLUTS'] = {'width': 1, 'extra': 0, 'limit': pick(lims, 'shape[0]')[1], 'subject': 'LUTD.shape[0]',
                              'src': 'width transcribed (as in tables_nitf2); limit: AST of the LUTD setter'}
    out['ImageBand.NELUT'] = {'width': 5, 'extra': 0, 'limit': pick(lims, 'shape[1]')[1], 'subject': 'LUTD.shape[1]',
                              'src': 'width transcribed (as in tables_nitf2); limit: AST of the LUTD setter'}
    w = None
    import re
    src = inspect.getsource(B.UnknownTRE.to_bytes)
    m = re.findall(r'\{1:0(\d+)d\}', src)
    out['UnknownTRE.CEL'] = {'width': int(m[0]) if m else 5, 'extra': 0, 'limit': pick(setter_limits(B.UnknownTRE.__init__, B.UnknownTRE), 'len(data)')[1],
                             'subject': 'len(data)', 'src': "width: '{1:05d}' in to_bytes (source); limit: AST of __init__"}
    return out


def generate_slots(path, cls_all):
    """Gen/NitfSlots.lean: the slots as `Spec.NitfAssign.Slot`; `slots_ok` over the rows whose setter limit respects the capacity,
    a kernel-checked negation witness for each of the others (the harness reports those under a stable key)"""
    sl = slots(cls_all)

    def ok(r):
        return r['limit'] is not None and r['limit'] + r['extra'] <= 10 ** r['width'] - 1

    def lean(r):
        return f"⟨{r['width']}, {r['extra']}, {'none' if r['limit'] is None else '(some %d)' % r['limit']}⟩"
    good = [(k, r) for k, r in sl.items() if ok(r)]
    bad = [(k, r) for k, r in sl.items() if not ok(r)]
    lines = ['-- GENERATED by translate/tables_nitf.py from /repo (do not edit; regenerated on every check run)',
             'import SarpyModel.Props.C13a', 'namespace Sarpy.Gen.NitfSlots', 'open Sarpy.Spec.FieldFmt Sarpy.Spec.NitfAssign', '',
             '/-- count / length fields whose setter keeps what is written within the digits of the field -/',
             'def slots : List (String × Slot) := [',
             ',\n'.join(f'  ("{k}", {lean(r)})' for k, r in good), ']', '',
             '/-- count / length fields whose setter has no test, or a limit above the capacity of the digits -/',
             'def unguarded : List (String × Slot) := [',
             ',\n'.join(f'  ("{k}", {lean(r)})' for k, r in bad), ']', '',
             'theorem slots_ok : slots.all (fun s => slotOk s.2) = true := by decide +kernel',
             '',
             '/-- for every guarded slot: whatever the setter lets through is written in exactly the width of the field -/',
             'theorem slots_fit : ∀ s ∈ slots, ∀ n : Nat, setterAccepts s.2 n = true →',
             '    acceptInt s.2.width ((n + s.2.extra : Nat) : Int) = true ∧ (renderCount s.2 n).length = s.2.width := by',
             '  intro s hs n ha',
             '  exact Sarpy.Props.C13a.slot_accepts_fits (List.all_eq_true.mp slots_ok s hs) ha',
             '',
             '/-- for every unguarded slot the setter lets through a count / length that the digits cannot hold (negation witness) -/',
             'theorem unguarded_not_ok : unguarded.all (fun s => !slotOk s.2) = true := by decide +kernel',
             '',
             'theorem unguarded_overflow : ∀ s ∈ unguarded, ∃ n, setterAccepts s.2 n = true ∧',
             '    acceptInt s.2.width ((n + s.2.extra : Nat) : Int) = false := by',
             '  intro s hs',
             '  have h := List.all_eq_true.mp unguarded_not_ok s hs',
             '  exact Sarpy.Props.C13a.slot_not_ok_has_overflow (by simpa using h)',
             '', 'end Sarpy.Gen.NitfSlots']
    text = '\n'.join(lines) + '\n'
    old = open(path).read() if os.path.exists(path) else None
    if old != text:
        with open(path, 'w') as f:
            f.write(text)
    for k, r in sl.items():
        r['ok'] = ok(r)
        cls = k.split('.')[0]
        if k == 'UserHeaderType.length':
            r['key'] = 'UserHeaderType.data:limit-ignores-the-OFL-bytes'
        elif k == 'UnknownTRE.CEL':
            r['key'] = 'UnknownTRE.data:no-limit-on-the-payload-length'
        elif k.endswith('Type.count') or k.endswith('_size'):
            r['key'] = '_ItemArrayHeaders:no-limit-on-count-or-sizes'
        elif k.endswith('.count'):
            r['key'] = 'NITFLoop.values:no-limit-on-the-number-of-items'
        else:
            r['key'] = f'{k}:setter-limit-exceeds-the-capacity-of-the-field'
    return sl


def generate(path):
    from sarpy.io.general.nitf_elements import base as B
    cls_all = classes()
    slot_rows = generate_slots(os.path.join(os.path.dirname(path), 'NitfSlots.lean'), cls_all)
    descs = generate_descs(os.path.join(os.path.dirname(path), 'NitfDescs.lean'), cls_all)
    tables = {}
    ovr = {}
    loops = {}
    for n, c in sorted(cls_all.items()):
        if n in ('BaseNITFElement', 'NITFElement', 'NITFLoop', 'TRE'):
            continue
        if issubclass(c, B.NITFLoop) and c._child_class is not None:
            loops[n] = (c._count_size, c._child_class.__name__)
            continue
        t = table_of(c, cls_all)
        if t is None:
            ovr[n] = overrides(c) if issubclass(c, B.NITFElement) else ['(not a NITFElement record)']
        else:
            tables[n] = t
    lines = ['-- GENERATED by translate/tables_nitf.py from /repo (do not edit; regenerated on every check run)',
             'import SarpyModel.Spec.FieldFmt', 'namespace Sarpy.Gen.Nitf', 'open Sarpy.Spec.FieldFmt', '',
             'def tables : List (String × List Field) := [']
    ents = []
    for n, rows in tables.items():
        fs = ', '.join('⟨.%s, %d⟩' % (k, w) for _, k, w, _ in rows)
        ents.append(f'  ("{n}", [{fs}])')
    lines.append(',\n'.join(ents))
    lines.append(']')
    lines.append('')
    lines.append('def loops : List (String × Nat × String) := [')
    lines.append(',\n'.join(f'  ("{n}", {cw}, "{ch}")' for n, (cw, ch) in loops.items()))
    lines.append(']')
    lines.append('')
    lines.append('end Sarpy.Gen.Nitf')
    text = '\n'.join(lines) + '\n'
    old = open(path).read() if os.path.exists(path) else None
    if old != text:
        with open(path, 'w') as f:
            f.write(text)
    return {'tables': tables, 'overrides': ovr, 'loops': loops, 'changed': old != text, 'descriptors': descs, 'slots': slot_rows}


if __name__ == '__main__':
    here = os.path.dirname(os.path.abspath(__file__))
    r = generate(os.path.join(here, '..', 'lean', 'SarpyModel', 'Gen', 'NitfTables.lean'))
    print({k: len(v) for k, v in r['tables'].items()})
    print(r['overrides'])
    print(r['loops'])
