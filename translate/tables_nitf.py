"""Regenerate lean/SarpyModel/Gen/NitfTables.lean by reflection on sarpy's NITF element classes.

A class is *table-driven* when every byte it writes comes from the generic NITFElement machinery over
fixed-width descriptors (possibly through nested table-driven elements, which are inlined).  Classes that
override any of the byte-level methods are listed as overrides: they are outside the generic theorem and are
covered by correspondence only."""
import importlib
import inspect
import os

MODS = ['base', 'nitf_head', 'image', 'des', 'text', 'graphics', 'res', 'security', 'label', 'symbol']
BYTE_METHODS = ('_get_attribute_bytes', '_get_attribute_length', '_parse_attribute', 'from_bytes', 'to_bytes', 'get_bytes_length')


def classes():
    from sarpy.io.general.nitf_elements.base import BaseNITFElement
    out = {}
    for m in MODS:
        mod = importlib.import_module('sarpy.io.general.nitf_elements.' + m)
        for n, c in inspect.getmembers(mod, inspect.isclass):
            if issubclass(c, BaseNITFElement) and c.__module__ == mod.__name__:
                out[n] = c
    return out


def overrides(c):
    from sarpy.io.general.nitf_elements.base import NITFElement
    ov = []
    for k in c.__mro__:
        if k is NITFElement:
            break
        ov += [m for m in BYTE_METHODS if m in k.__dict__]
    return sorted(set(ov))


def table_of(c, cls_all, depth=0):
    """list of (name, kind, width, extra) or None if not table-driven"""
    from sarpy.io.general.nitf_elements import base as B
    if not issubclass(c, B.NITFElement) or issubclass(c, B.NITFLoop) or overrides(c) or getattr(c, '_binary_format', None):
        return None
    rows = []
    for fld in c._ordering:
        d = c.__dict__.get(fld) or getattr(c, fld, None)
        if fld in c._lengths:
            w = c._lengths[fld]
            if isinstance(d, B._IntegerDescriptor):
                rows.append((fld, 'int', w, None))
            elif isinstance(d, B._StringEnumDescriptor):
                rows.append((fld, 'str', w, sorted(d.values)))
            elif isinstance(d, B._StringDescriptor):
                rows.append((fld, 'str', w, None))
            elif isinstance(d, B._RawDescriptor):
                rows.append((fld, 'raw', w, None))
            else:
                return None
            if getattr(d, 'length', w) != w:
                return None   # descriptor width and _lengths disagree: leave to the correspondence check
        elif isinstance(d, B._NITFElementDescriptor):
            sub = table_of(d.the_type, cls_all, depth + 1)
            if sub is None:
                return None
            rows += [(fld + '.' + n, k, w, e) for n, k, w, e in sub]
        else:
            return None
    return rows


def descriptor_of(c, fld):
    for k in c.__mro__:
        if fld in k.__dict__:
            return k.__dict__[fld]
    return None


def descriptors(cls_all=None):
    """every fixed-width descriptor-backed field of every element class:
    {'Class.FIELD': {'kind': 'str'|'enum'|'int'|'raw', 'width': descriptor width, 'render_width': width used by to_bytes,
                     'values': [...], 'default': str|None, 'binary': struct format or None}}"""
    from sarpy.io.general.nitf_elements import base as B
    cls_all = cls_all or classes()
    out = {}
    for n, c in sorted(cls_all.items()):
        if not issubclass(c, B.NITFElement):
            continue
        for fld in c._ordering:
            d = descriptor_of(c, fld)
            if not isinstance(d, B._BasicDescriptor) or d.length is None:
                continue
            if isinstance(d, B._StringEnumDescriptor):
                kind = 'enum'
            elif isinstance(d, B._StringDescriptor):
                kind = 'str'
            elif isinstance(d, B._IntegerDescriptor):
                kind = 'int'
            elif isinstance(d, B._RawDescriptor):
                kind = 'raw'
            else:
                continue
            out[f'{n}.{fld}'] = {'class': n, 'field': fld, 'kind': kind, 'width': int(d.length), 'render_width': c._lengths.get(fld),
                                 'values': sorted(d.values) if kind == 'enum' else None,
                                 'default': d._default_value if kind == 'enum' else None,
                                 'binary': getattr(c, '_binary_format', {}).get(fld)}
    return out


def _blit(s):
    return '[' + ', '.join(str(b) for b in s.encode('utf-8')) + ']'


def lean_desc(d):
    if d['kind'] == 'enum':
        dv = 'none' if d['default'] is None else f'(some {_blit(d["default"])})'
        return f'(.enum {d["width"]} [{", ".join(_blit(v) for v in d["values"])}] {dv})'
    return f'(.{d["kind"]} {d["width"]})'


def generate_descs(path, cls_all):
    """Gen/NitfDescs.lean: the descriptors of the current tree as `Spec.NitfAssign.Desc`, their well-formedness decided by the kernel,
    and the assignment theorems of Props/C13a.lean instantiated on all of them"""
    descs = descriptors(cls_all)
    lines = ['-- GENERATED by translate/tables_nitf.py from /repo (do not edit; regenerated on every check run)',
             'import SarpyModel.Props.C13a', 'namespace Sarpy.Gen.NitfDescs', 'open Sarpy.Spec.FieldFmt Sarpy.Spec.NitfAssign', '',
             'def descs : List (String × Desc) := [']
    lines.append(',\n'.join(f'  ("{k}", {lean_desc(d)})' for k, d in descs.items()))
    lines += [']', '',
              '/-- every enumerated value and default of the current classes fits its field (kernel-decided) -/',
              'theorem descs_wf : descs.all (fun d => wfDesc d.2) = true := by decide +kernel',
              '',
              '/-- for every descriptor of the current tree and every assigned input: what is stored renders to exactly the declared width,',
              '    and the bytes of the neighbouring field are left alone -/',
              'theorem descs_renderable : ∀ d ∈ descs, ∀ (x : Input) (v : Stored), assign d.2 x = some v →',
              '    (render d.2 v).length = d.2.width ∧ ∀ next : Bytes, (render d.2 v ++ next).drop d.2.width = next := by',
              '  intro d hd x v ha',
              '  have hw := List.all_eq_true.mp descs_wf d hd',
              '  exact ⟨Sarpy.Props.C13a.assign_renderable hw ha, fun next => (Sarpy.Props.C13a.assign_never_overflows hw ha next).2⟩',
              '', 'end Sarpy.Gen.NitfDescs']
    text = '\n'.join(lines) + '\n'
    old = open(path).read() if os.path.exists(path) else None
    if old != text:
        with open(path, 'w') as f:
            f.write(text)
    return descs


def generate(path):
    from sarpy.io.general.nitf_elements import base as B
    cls_all = classes()
    descs = generate_descs(os.path.join(os.path.dirname(path), 'NitfDescs.lean'), cls_all)
    tables = {}
    ovr = {}
    loops = {}
    for n, c in sorted(cls_all.items()):
        if n in ('BaseNITFElement', 'NITFElement', 'NITFLoop', 'TRE'):
            continue
        if issubclass(c, B.NITFLoop) and c._child_class is not None:
            loops[n] = (c._count_size, c._child_class.__name__)
            continue
        t = table_of(c, cls_all)
        if t is None:
            ovr[n] = overrides(c) if issubclass(c, B.NITFElement) else ['(not a NITFElement record)']
        else:
            tables[n] = t
    lines = ['-- GENERATED by translate/tables_nitf.py from /repo (do not edit; regenerated on every check run)',
             'import SarpyModel.Spec.FieldFmt', 'namespace Sarpy.Gen.Nitf', 'open Sarpy.Spec.FieldFmt', '',
             'def tables : List (String × List Field) := [']
    ents = []
    for n, rows in tables.items():
        fs = ', '.join('⟨.%s, %d⟩' % (k, w) for _, k, w, _ in rows)
        ents.append(f'  ("{n}", [{fs}])')
    lines.append(',\n'.join(ents))
    lines.append(']')
    lines.append('')
    lines.append('def loops : List (String × Nat × String) := [')
    lines.append(',\n'.join(f'  ("{n}", {cw}, "{ch}")' for n, (cw, ch) in loops.items()))
    lines.append(']')
    lines.append('')
    lines.append('end Sarpy.Gen.Nitf')
    text = '\n'.join(lines) + '\n'
    old = open(path).read() if os.path.exists(path) else None
    if old != text:
        with open(path, 'w') as f:
            f.write(text)
    return {'tables': tables, 'overrides': ovr, 'loops': loops, 'changed': old != text, 'descriptors': descs}


if __name__ == '__main__':
    here = os.path.dirname(os.path.abspath(__file__))
    r = generate(os.path.join(here, '..', 'lean', 'SarpyModel', 'Gen', 'NitfTables.lean'))
    print({k: len(v) for k, v in r['tables'].items()})
    print(r['overrides'])
    print(r['loops'])
