"""py2lean_loops: the typed py -> Lean translator (py2lean.Tr / gen_kernels2.TrX) extended to loops, tuples and lists of tuples.

What is added to the loop-free subset (nothing in py2lean.py / gen_kernels2.py is changed):

  * types        n-tuples of ints `Int × ... × Int`, lists of such tuples `List (Int × ... × Int)`; a tuple literal of int
                 expressions, `t[k]` for a constant k, `x = []`, `x.append(t)` (read as `x = x + [t]`, the list is never
                 aliased in the subset), `tuple(x)` / `list(x)` of a list (the same sequence), `len(x)`;
  * for loops    `for i in range(n)` / `range(a, b)`: the loop body becomes its own loop-free Lean function
                 `<f>_loop<k>_body (captured...) [i] (carried...)` returning the tuple of loop-carried variables, and the loop
                 is `forRange (fun i st => body ...) count start init` - `forRange` (Spec/PyLoops.lean) is structural recursion
                 on the Nat counter `count = (b - a).toNat`;
  * enumerate    `for i, x in enumerate(l)` over a list of tuples -> `forEnum (fun i x st => body ...) l 0 init` (recursion on the list);
                 `l[e]` for a list `l` and an int expression `e` -> `pyIndex l e` (negative indices count from the end, IndexError);
                 lists of plain ints (`List (Int)`);
  * while loops  `while c:`: test and body become `<f>_loop<k>_cond` / `<f>_loop<k>_body`, the loop is
                 `whileFuel cond body fuel init` - fuel recursion; the fuel is a Python int expression *declared per job*
                 (`fuel={'loop1': 'rows'}`), evaluated in the scope of the loop entry.  When the fuel runs out while the test
                 still holds the result is `Except.error "OutOfFuel"` (Python would still be looping), so a bridge theorem
                 `Gen.f x = .ok (...)` is at the same time the proof that the declared fuel suffices;
  * numpy / dict `numpy` int vectors of length 2 (`__npvec__(a, b)`, introduced by the job's aliases for `numpy.zeros(2)` / `numpy.array([a, b])`)
                 with `+`, `v[0]`, `v[1]`; dicts `{int: vector}` as association lists (`{k: v}`, `d[k]`, `d[k] = v`).  Vectors have VALUE
                 semantics in Lean, so every in-place update `x op= e` of a vector / dict / list variable is REFUSED (numpy's `+=` mutates
                 the object all aliases share); `x op= e` on ints is `x = x op e`;
  * `int(round(a / b))` -> `roundDiv a b` (Python 3 round-half-to-even of the exact quotient; operands < 2^52).

Loop-carried variables = the names assigned in the loop (incl. the lists appended to) that are bound before the loop, in
alphabetical order; every other name assigned in the body is a per-iteration temporary.  Captured variables = the names of
the enclosing scope the loop reads.  A name first bound inside a loop and read after it, `break`, `continue`, `return` inside
a loop, `else:` clauses of loops and iteration over anything but `range` / `enumerate(list)` are refused (`Unsupported`, fail closed).
Names first bound in one branch of an `if` and read nowhere else in the function are branch temporaries (renamed `tmpb_*`, not joined).

How it works: before translation every loop statement of the function is replaced (purely syntactically) by
      st_loopK = __loop__('loopK');  v1 = st_loopK[0];  v2 = st_loopK[1]; ...
and the original loop node is kept aside.  When the translator reaches the `__loop__` call it knows the types of all names in
scope, synthesises the source of the body / test functions (`def f_loopK_body(captured, carried): <body>; return (carried)`),
translates them with a fresh instance of this class (nested loops recurse) and emits the combinator call.  So every generated
definition is a loop-free `Except String` program; recursion lives only in the two hand-written combinators."""
import ast
import copy
import os
import sys

sys.path.insert(0, os.path.dirname(os.path.abspath(__file__)))
from py2lean import Tr, Unsupported, Restart, INT, OPT, BOOL, SLICE, ITEM, NONE, mangle
from gen_kernels2 import TrX


NPVEC, DICT2 = 'NpVec2', 'PyDict2'


def tup(n):
    return ' × '.join([INT] * n)


def lst(n):
    return f'List ({tup(n)})'


def tuple_parts(t):
    """component types of a product type written by this module (top-level split at ×)"""
    parts, depth, cur = [], 0, ''
    for ch in t:
        if ch == '(':
            depth += 1
        elif ch == ')':
            depth -= 1
        if ch == '×' and depth == 0:
            parts.append(cur.strip())
            cur = ''
        else:
            cur += ch
    parts.append(cur.strip())
    return parts


def is_tuple(t):
    return isinstance(t, str) and len(tuple_parts(t)) > 1


def is_list(t):
    return isinstance(t, str) and t.startswith('List (') and len(tuple_parts(t)) == 1


def elem_type(t):
    return t[len('List ('):-1]


def proj(s, i, n):
    """Lean projection of component i of an n-tuple expression s"""
    if n == 1:
        return s
    return s + '.2' * i + ('.1' if i < n - 1 else '')


def paren(t):
    return f'({t})' if ('×' in t or ' ' in t) else t


def default_of(t):
    if t == INT:
        return '(0 : Int)'
    if t == OPT:
        return 'none'
    if t == BOOL:
        return 'false'
    if is_list(t) or t == DICT2:
        return '[]'
    if t == NPVEC:
        return '((0, 0) : NpVec2)'
    if is_tuple(t):
        return '(' + ', '.join(default_of(p) for p in tuple_parts(t)) + ')'
    raise Unsupported(f'no default for {t}')


def _target_names(tg):
    """names (re)bound by an assignment target: `x`, `(x, y)`; `x[...] = e` / `x.a = e` update x (the names inside the subscript are only read)"""
    if isinstance(tg, ast.Name):
        return [tg.id]
    if isinstance(tg, (ast.Tuple, ast.List)):
        return [n for e in tg.elts for n in _target_names(e)]
    if isinstance(tg, (ast.Subscript, ast.Attribute)):
        b = tg.value
        while isinstance(b, (ast.Subscript, ast.Attribute)):
            b = b.value
        return [b.id] if isinstance(b, ast.Name) else []
    return []


def _assigned(stmts):
    """names (re)bound by a statement list, incl. lists appended to and loop targets"""
    out = []
    for st in stmts:
        for n in ast.walk(st):
            if isinstance(n, ast.Assign):
                for tg in n.targets:
                    out += _target_names(tg)
            elif isinstance(n, ast.AugAssign) and isinstance(n.target, ast.Name):
                out.append(n.target.id)
            elif isinstance(n, ast.AugAssign) and isinstance(n.target, ast.Subscript) and isinstance(n.target.value, ast.Name):
                out.append(n.target.value.id)          # `x[a:b] op= e` updates x
            elif isinstance(n, ast.Expr) and isinstance(n.value, ast.Call) and isinstance(n.value.func, ast.Attribute) \
                    and n.value.func.attr == 'append' and isinstance(n.value.func.value, ast.Name):
                out.append(n.value.func.value.id)
    return list(dict.fromkeys(out))


def _loads(node):
    return {n.id for n in ast.walk(node) if isinstance(n, ast.Name)}


class TrL(TrX):
    def __init__(self, fn, sig, name, rettype, known=None, src=None, fuel=None):
        TrX.__init__(self, fn, sig, name, rettype, known=known, src=src)
        self.fuel = dict(fuel or {})
        self.loops = {}
        self.nloops = 0
        self.loop_info = []       # [(label, kind, carried, captured, fuel text)] for the report
        self.arity = self._list_arities(self.tree)
        params = {a.arg for a in self.tree.args.args}
        self.tree.body = self._lift(self.tree.body, set(params))

    def _sub_kwargs(self, params):
        """extra constructor arguments for the translator of a synthesised loop body / test (subclasses)"""
        return {}

    # ------------------------------------------------------------------ syntactic pre-pass
    @staticmethod
    def _list_arities(tree):
        ar = {}
        for n in ast.walk(tree):
            if isinstance(n, ast.Call) and isinstance(n.func, ast.Attribute) and n.func.attr == 'append' \
                    and isinstance(n.func.value, ast.Name) and len(n.args) == 1:
                k = len(n.args[0].elts) if isinstance(n.args[0], ast.Tuple) else 1      # 1: a list of plain ints
                if ar.setdefault(n.func.value.id, k) != k:
                    raise Unsupported(f'list {n.func.value.id} holds tuples of different lengths')
        return ar

    def _lift(self, stmts, bound):
        out = []
        for st in stmts:
            if isinstance(st, ast.Expr) and isinstance(st.value, ast.Call) and isinstance(st.value.func, ast.Attribute) \
                    and st.value.func.attr == 'append' and isinstance(st.value.func.value, ast.Name) and len(st.value.args) == 1:
                x = st.value.func.value.id
                st = ast.Assign(targets=[ast.Name(id=x, ctx=ast.Store())],
                                value=ast.BinOp(left=ast.Name(id=x, ctx=ast.Load()), op=ast.Add(), right=ast.List(elts=[st.value.args[0]], ctx=ast.Load())))
            if isinstance(st, ast.Assign) and len(st.targets) == 1 and isinstance(st.targets[0], ast.Name) \
                    and isinstance(st.value, ast.List) and not st.value.elts:
                x = st.targets[0].id
                if x not in self.arity:
                    raise Unsupported(f'element type of the empty list {x} is not determined by an append of a tuple')
                st = ast.Assign(targets=st.targets, value=ast.Call(func=ast.Name(id='__nil__', ctx=ast.Load()),
                                                                   args=[ast.Constant(value=self.arity[x])], keywords=[]))
            if isinstance(st, (ast.Assign, ast.AugAssign)):
                tg = st.targets[0] if isinstance(st, ast.Assign) and len(st.targets) == 1 else getattr(st, 'target', None)
                if isinstance(tg, ast.Subscript) and isinstance(tg.value, ast.Name) and isinstance(tg.slice, (ast.Slice, ast.Tuple)):
                    # `x[a:b] = e` / `x[a:b] op= e` on an array variable: read as rebinding x (admitted only under the aliasing discipline
                    # of py2lean_arrays; everything else refuses the synthetic call)
                    x = tg.value.id
                    view = ast.Subscript(value=ast.Name(id=x, ctx=ast.Load()), slice=tg.slice, ctx=ast.Load())
                    val = st.value if isinstance(st, ast.Assign) else ast.BinOp(left=copy.deepcopy(view), op=st.op, right=st.value)
                    st = ast.Assign(targets=[ast.Name(id=x, ctx=ast.Store())],
                                    value=ast.Call(func=ast.Name(id='__setslice__', ctx=ast.Load()), args=[view, val], keywords=[]))
            if isinstance(st, ast.Assign) and len(st.targets) == 1 and isinstance(st.targets[0], ast.Subscript) and isinstance(st.targets[0].value, ast.Name) \
                    and not isinstance(st.targets[0].slice, (ast.Slice, ast.Tuple)):
                # `d[k] = v` on a dict variable: read as `d = dictSet(d, k, v)` (the dict is never aliased in the subset)
                d = st.targets[0].value.id
                st = ast.Assign(targets=[ast.Name(id=d, ctx=ast.Store())],
                                value=ast.Call(func=ast.Name(id='__dictset__', ctx=ast.Load()),
                                               args=[ast.Name(id=d, ctx=ast.Load()), st.targets[0].slice, st.value], keywords=[]))
            if isinstance(st, ast.AugAssign) and isinstance(st.target, ast.Name):
                # `x op= e`: rebinding for ints, IN-PLACE for numpy arrays - decided when the type of x is known (`__aug__`)
                st = ast.Assign(targets=[ast.Name(id=st.target.id, ctx=ast.Store())],
                                value=ast.Call(func=ast.Name(id='__aug__', ctx=ast.Load()),
                                               args=[ast.Name(id=st.target.id, ctx=ast.Load()), st.value, ast.Constant(value=type(st.op).__name__)], keywords=[]))
            if isinstance(st, (ast.For, ast.While)):
                if st.orelse:
                    raise Unsupported('else clause of a loop')
                for n in ast.walk(st):
                    if isinstance(n, (ast.Break, ast.Continue, ast.Return)):
                        raise Unsupported(f'{type(n).__name__.lower()} inside a loop')
                self.nloops += 1
                label = f'loop{self.nloops}'
                carried = sorted(n for n in _assigned(st.body) if n in bound)
                if isinstance(st, ast.For):
                    tnames = self._loop_targets(st)
                    carried = [c for c in carried if c not in tnames]
                if not carried:
                    raise Unsupported(f'{label} changes no variable that is bound before it')
                self.loops[label] = (st, carried)
                sv = f'st_{label}'
                out.append(ast.Assign(targets=[ast.Name(id=sv, ctx=ast.Store())],
                                      value=ast.Call(func=ast.Name(id='__loop__', ctx=ast.Load()), args=[ast.Constant(value=label)], keywords=[])))
                for i, c in enumerate(carried):
                    val = ast.Name(id=sv, ctx=ast.Load()) if len(carried) == 1 else \
                        ast.Subscript(value=ast.Name(id=sv, ctx=ast.Load()), slice=ast.Constant(value=i), ctx=ast.Load())
                    out.append(ast.Assign(targets=[ast.Name(id=c, ctx=ast.Store())], value=val))
                continue
            if isinstance(st, ast.If):
                b1, b2 = set(bound), set(bound)
                body = self._lift(self._localise(st.body, bound), b1)
                orelse = self._lift(self._localise(st.orelse or [], bound), b2)
                # a tuple-valued name first bound in the branches of this `if`: pre-declare it (py2lean pre-declares ints only)
                for x in _assigned(body + orelse):
                    if x in bound:
                        continue
                    vals = [n.value for s in body + orelse for n in ast.walk(s) if isinstance(n, ast.Assign) and len(n.targets) == 1
                            and isinstance(n.targets[0], ast.Name) and n.targets[0].id == x]
                    if vals and all(isinstance(v, ast.Tuple) and len(v.elts) == len(vals[0].elts) for v in vals):
                        out.append(ast.Assign(targets=[ast.Name(id=x, ctx=ast.Store())],
                                              value=ast.Tuple(elts=[ast.Constant(value=0) for _ in vals[0].elts], ctx=ast.Load())))
                        bound.add(x)
                st = ast.If(test=st.test, body=body, orelse=orelse)
                bound |= (b1 | b2)
                out.append(st)
                continue
            bound |= set(_assigned([st]))
            out.append(st)
        return [ast.fix_missing_locations(s) for s in out]

    @staticmethod
    def _loop_targets(st):
        """`for i in ...` -> [i]; `for i, x in enumerate(...)` -> [i, x]"""
        t = st.target
        if isinstance(t, ast.Name):
            return [t.id]
        if isinstance(t, ast.Tuple) and len(t.elts) == 2 and all(isinstance(e, ast.Name) for e in t.elts) \
                and isinstance(st.iter, ast.Call) and isinstance(st.iter.func, ast.Name) and st.iter.func.id == 'enumerate':
            return [e.id for e in t.elts]
        raise Unsupported('loop target ' + ast.dump(t)[:40])

    def _localise(self, branch, bound):
        """names first bound in this branch of an `if` and read nowhere else in the function are temporaries of the branch: they are
        renamed `tmpb_<name>` and kept out of the tuple of variables the `if` hands on (py2lean joins every name a branch assigns)"""
        if not branch:
            return branch
        mod = ast.Module(body=branch, type_ignores=[])
        inside = {}
        for n in ast.walk(mod):
            if isinstance(n, ast.Name):
                inside[n.id] = inside.get(n.id, 0) + 1
        total = {}
        for n in ast.walk(self.tree):
            if isinstance(n, ast.Name):
                total[n.id] = total.get(n.id, 0) + 1
        local = {x for x in _assigned(branch) if x not in bound and total.get(x, 0) == inside.get(x, 0) and not x.startswith('tmpb_')}
        if not local:
            return branch

        class Ren(ast.NodeTransformer):
            def visit_Name(self, node):
                return ast.copy_location(ast.Name(id='tmpb_' + node.id, ctx=node.ctx), node) if node.id in local else node
        return [Ren().visit(copy.deepcopy(s)) for s in branch]

    def assigned_names(self, stmts):
        return [n for n in Tr.assigned_names(self, stmts) if not n.startswith('tmpb_') and not n.startswith('st_loop')]

    # ------------------------------------------------------------------ expressions
    def add_aux(self, name, text):
        self.aux = [a for a in self.aux if not a.rstrip().endswith(f'-- end {name}')]
        self.aux.append(text + f'\n-- end {name}')

    def expr(self, e, env, pre):
        if isinstance(e, ast.Tuple):
            parts = [self.as_int(x, env, pre) for x in e.elts]
            return '(' + ', '.join(parts) + ')', tup(len(parts))
        if isinstance(e, ast.Dict) and len(e.keys) == 1 and e.keys[0] is not None:
            k = self.as_int(e.keys[0], env, pre)
            v, tv = self.expr(e.values[0], env, pre)
            if tv != NPVEC:
                raise Unsupported(f'dict of {tv}')
            return f'([({k}, {v})] : PyDict2)', DICT2
        if isinstance(e, ast.BinOp) and isinstance(e.op, ast.Add) and not isinstance(e.right, ast.List):
            p1, p2 = [], []
            a, ta = self.expr(e.left, env, p1)
            if ta == NPVEC:
                b, tb = self.expr(e.right, env, p2)
                if tb != NPVEC:
                    raise Unsupported(f'numpy vector + {tb}')
                pre += p1 + p2
                return f'(npAdd2 {a} {b})', NPVEC
        if isinstance(e, ast.Subscript) and not isinstance(e.slice, (ast.Slice, ast.Tuple)):
            p1 = []
            s0, t0 = self.expr(e.value, env, p1)
            if t0 == DICT2:
                pre += p1
                k = self.as_int(e.slice, env, pre)
                v = self.fresh('x')
                pre.append(f'let {v} ← dictGet {s0} {k}')
                return v, NPVEC
            if t0 == NPVEC:
                pre += p1
                if not (isinstance(e.slice, ast.Constant) and e.slice.value in (0, 1)):
                    raise Unsupported('index of a numpy vector of length 2')
                return f'{s0}.{e.slice.value + 1}', INT
        if isinstance(e, ast.Subscript) and isinstance(e.slice, ast.Constant) and isinstance(e.slice.value, int):
            s, t = self.expr(e.value, env, pre)
            if is_list(t):
                v = self.fresh('x')
                pre.append(f'let {v} ← pyIndex {s} ({e.slice.value} : Int)')
                return v, elem_type(t)
            if is_tuple(t):
                ps = tuple_parts(t)
                k = e.slice.value
                if not 0 <= k < len(ps):
                    raise Unsupported('tuple index out of range')
                return proj(s, k, len(ps)), ps[k]
            raise Unsupported(f'subscript of {t}')
        if isinstance(e, ast.Subscript) and not isinstance(e.slice, (ast.Slice, ast.Tuple)):
            s, t = self.expr(e.value, env, pre)
            if is_list(t):
                k = self.as_int(e.slice, env, pre)
                v = self.fresh('x')
                pre.append(f'let {v} ← pyIndex {s} {k}')
                return v, elem_type(t)
            raise Unsupported(f'subscript of {t}')
        if isinstance(e, ast.BinOp) and isinstance(e.op, ast.Add) and isinstance(e.right, ast.List) and len(e.right.elts) == 1:
            l, t = self.expr(e.left, env, pre)
            if not is_list(t):
                raise Unsupported(f'append to {t}')
            x, tx = self.expr(e.right.elts[0], env, pre)
            if f'List ({tx})' != t:
                raise Unsupported(f'append of {tx} to {t}')
            return f'({l} ++ [{x}])', t
        if isinstance(e, ast.Call) and isinstance(e.func, ast.Name):
            f = e.func.id
            if f == '__npvec__' and len(e.args) == 2:
                return f'(({self.as_int(e.args[0], env, pre)}, {self.as_int(e.args[1], env, pre)}) : NpVec2)', NPVEC
            if f == '__dictset__':
                d, td = self.expr(e.args[0], env, pre)
                if td != DICT2:
                    raise Unsupported(f'item assignment on {td}')
                k = self.as_int(e.args[1], env, pre)
                v, tv = self.expr(e.args[2], env, pre)
                if tv != NPVEC:
                    raise Unsupported(f'dict value of {tv}')
                return f'(dictSet {d} {k} {v})', DICT2
            if f == '__aug__':
                p1 = []
                _, tx = self.expr(e.args[0], env, p1)
                if tx in (NPVEC, DICT2) or is_list(tx):
                    raise Unsupported(f'in-place `{e.args[0].id} {e.args[2].value}=` on a {tx}: the object may be shared with other names / containers '
                                      '(value semantics of the translation would be wrong)')
                op = {'Add': ast.Add, 'Sub': ast.Sub, 'Mult': ast.Mult, 'FloorDiv': ast.FloorDiv, 'Mod': ast.Mod}.get(e.args[2].value)
                if op is None:
                    raise Unsupported('augmented assignment ' + e.args[2].value)
                return self.expr(ast.BinOp(left=e.args[0], op=op(), right=e.args[1]), env, pre)
            if f == '__nil__':
                t = lst(e.args[0].value)
                return f'([] : {t})', t
            if f == '__loop__':
                return self.loop_expr(e.args[0].value, env, pre)
            if f in ('tuple', 'list') and len(e.args) == 1:
                s, t = self.expr(e.args[0], env, pre)
                if is_list(t):
                    return s, t
                raise Unsupported(f'{f}() of {t}')
            if f == 'len' and len(e.args) == 1:
                s, t = self.expr(e.args[0], env, pre)
                if is_list(t):
                    return f'({s}.length : Int)', INT
                raise Unsupported(f'len of {t}')
        return TrX.expr(self, e, env, pre)

    def intcast(self, inner, env, pre):
        if isinstance(inner, ast.Call) and isinstance(inner.func, ast.Name) and inner.func.id == 'round' and len(inner.args) == 1:
            a, b = self.divparts(inner.args[0], env, pre)
            v = self.fresh('q')
            pre.append(f'let {v} ← roundDiv {a} {b}')
            return v
        return TrX.intcast(self, inner, env, pre)

    # ------------------------------------------------------------------ loops
    def loop_expr(self, label, env, pre):
        node, carried = self.loops[label]
        for c in carried:
            if c not in env:
                raise Unsupported(f'{label}: {c} is not bound on every path to the loop')
        ctypes = [env[c][1] for c in carried]
        if any(t == NONE for t in ctypes):
            raise Unsupported(f'{label}: carried variable of type None')
        stype = ' × '.join(paren(t) if is_tuple(t) else t for t in ctypes)
        n = len(carried)
        is_for = isinstance(node, ast.For)
        used = _loads(ast.Module(body=node.body, type_ignores=[])) | (set() if is_for else _loads(node.test))
        tnames = self._loop_targets(node) if is_for else []
        is_enum = len(tnames) == 2
        loopvar = tnames[0] if tnames else None
        elemvar = tnames[1] if is_enum else None
        etype = None
        if is_enum:
            if len(node.iter.args) != 1 or node.iter.keywords:
                raise Unsupported(f'{label}: enumerate with a start value')
            lexpr, ltype = self.expr(node.iter.args[0], env, pre)
            if not is_list(ltype):
                raise Unsupported(f'{label}: enumerate over {ltype}')
            etype = elem_type(ltype)
        caps = [k for k in env if k in used and k not in carried and k not in tnames and not k.startswith('st_loop')]
        sub_fuel = {k[len(label) + 1:]: v for k, v in self.fuel.items() if k.startswith(label + '.')}
        base = f'{self.name}_{label}'

        def synth(kind, params, body_stmts, rettype):
            fd = ast.FunctionDef(name='frag', args=ast.arguments(posonlyargs=[], args=[ast.arg(arg=p) for p in params], kwonlyargs=[],
                                                                 kw_defaults=[], defaults=[]), body=body_stmts, decorator_list=[], type_params=[])
            src = ast.unparse(ast.fix_missing_locations(ast.Module(body=[fd], type_ignores=[]))) + '\n'
            sig = {}
            for p in params:
                sig[p] = INT if p == loopvar else (etype if p == elemvar else env[p][1])
            sub = type(self)(None, sig, f'{base}_{kind}', rettype, known=self.known, src=src, fuel=sub_fuel if kind == 'body' else None,
                             **self._sub_kwargs(params))
            self.add_aux(f'{base}_{kind}', sub.translate())
            self.loop_info += [(f'{label}.{a}', b, c, d, f) for a, b, c, d, f in sub.loop_info]

        ret = ast.Return(value=ast.Name(id=carried[0], ctx=ast.Load()) if n == 1 else
                         ast.Tuple(elts=[ast.Name(id=c, ctx=ast.Load()) for c in carried], ctx=ast.Load()))
        body_loads = _loads(ast.Module(body=node.body, type_ignores=[]))
        body_params = caps + ([loopvar] if is_for and (loopvar in body_loads or is_enum) else []) + ([elemvar] if is_enum else []) + carried
        synth('body', body_params, copy.deepcopy(node.body) + [ret], stype)
        capargs = ''.join(' ' + env[k][0] for k in caps)
        stargs = ''.join(' ' + proj('st', i, n) for i in range(n))
        init = env[carried[0]][0] if n == 1 else '(' + ', '.join(env[c][0] for c in carried) + ')'
        v = self.fresh('r')
        if is_enum:
            pre.append(f'let {v} ← forEnum (fun (i : Int) (x : {etype}) (st : {stype}) => {base}_body{capargs} i x{stargs}) {lexpr} (0 : Int) {init}')
            self.loop_info.append((label, 'enumerate', carried, caps, None))
        elif is_for:
            it = node.iter
            if not (isinstance(it, ast.Call) and isinstance(it.func, ast.Name) and it.func.id == 'range' and 1 <= len(it.args) <= 2 and not it.keywords):
                raise Unsupported(f'{label}: iteration over ' + ast.unparse(it)[:60])
            if len(it.args) == 1:
                start, count = '(0 : Int)', self.as_int(it.args[0], env, pre)
            else:
                start = self.as_int(it.args[0], env, pre)
                count = f'({self.as_int(it.args[1], env, pre)} - {start})'
            ivar = 'i' if loopvar in body_params else '_'
            iarg = ' i' if loopvar in body_params else ''
            pre.append(f'let {v} ← forRange (fun ({ivar} : Int) (st : {stype}) => {base}_body{capargs}{iarg}{stargs}) (Int.toNat {count}) {start} {init}')
            self.loop_info.append((label, 'for', carried, caps, None))
        else:
            if label not in self.fuel:
                raise Unsupported(f'{label}: while loop without a declared fuel expression')
            synth('cond', caps + carried, [ast.Return(value=copy.deepcopy(node.test))], BOOL)
            fuel = self.as_int(ast.parse(self.fuel[label], mode='eval').body, env, pre)
            pre.append(f'let {v} ← whileFuel (fun (st : {stype}) => {base}_cond{capargs}{stargs}) (fun (st : {stype}) => {base}_body{capargs}{stargs}) '
                       f'(Int.toNat {fuel}) {init}')
            self.loop_info.append((label, 'while', carried, caps, self.fuel[label]))
        return v, stype

    # ------------------------------------------------------------------ results
    def retval(self, v, env, pre):
        if isinstance(v, ast.Tuple) and self.rettype not in ('OptSlice2',):
            parts = []
            for x in v.elts:
                s, t = self.expr(x, env, pre)
                parts.append(s)
            return '(' + ', '.join(parts) + ')'
        return TrX.retval(self, v, env, pre)
