"""py2lean_ext: additions to the typed Python -> Lean translator needed by the CPHD / CRSD header kernels.

`TrX` subclasses `py2lean.Tr` (py2lean.py itself is not edited) and adds

  * `int(A * B)` where each factor is itself an integer-valued float idiom or an int expression
    (`int(numpy.ceil(float(val)/align_to)*align_to)`): read as the exact integer product, same trusted
    reading as the three division idioms of py2lean (operands < 2^53);
  * nested closures with *declared* parameter / return types (`closure_types`), instead of the
    `Optional[int] -> Optional[int]` shape py2lean assumes for the slice kernels;
  * tuple returns with an explicit Lean product type given as the `rettype` string.
"""
import ast
import textwrap

from py2lean import Tr, Unsupported, INT, OPT, BOOL, NONE  # noqa: F401


class TrX(Tr):
    def __init__(self, fn, sig, name, rettype, known=None, src=None, closure_types=None):
        super().__init__(fn, sig, name, rettype, known=known, src=src)
        self.closure_types = dict(closure_types or {})

    def intcast(self, inner, env, pre):
        if isinstance(inner, ast.BinOp) and isinstance(inner.op, ast.Mult):
            left = self.intcast(inner.left, env, pre)
            right = self.intcast(inner.right, env, pre)
            return f'({left} * {right})'
        return super().intcast(inner, env, pre)

    def closure(self, fd, env):
        if fd.name not in self.closure_types:
            return super().closure(fd, env)
        ptypes, rtype = self.closure_types[fd.name]
        argnames = [a.arg for a in fd.args.args]
        if len(argnames) != len(ptypes):
            raise Unsupported(f'closure {fd.name}: {len(argnames)} parameters, {len(ptypes)} declared')
        free = [k for k in env if k not in argnames and any(isinstance(n, ast.Name) and n.id == k for n in ast.walk(fd))]
        sig = dict(zip(argnames, ptypes))
        for k in free:
            sig[k] = env[k][1]
        lname = f'{self.name}_{fd.name.lstrip("_")}'
        src = textwrap.dedent(ast.get_source_segment(self.src, fd))
        sub = TrX(None, sig, lname, rtype, known=self.known, src=src, closure_types=self.closure_types)
        text = sub.translate(param_order=free + argnames, mutable_params=True)
        self.aux.append(text)
        self.known[fd.name] = (lname + ''.join(' ' + env[k][0] for k in free), list(ptypes), rtype)

    def retval(self, v, env, pre):
        if isinstance(v, ast.Tuple) and '×' in str(self.rettype):
            want = [t.strip() for t in self.rettype.split('×')]
            if len(want) != len(v.elts):
                raise Unsupported('tuple arity differs from the declared return type')
            parts = []
            for x, wt in zip(v.elts, want):
                s, t = self.expr(x, env, pre)
                parts.append(self.coerce(s, t, wt))
            return '(' + ', '.join(parts) + ')'
        return super().retval(v, env, pre)
