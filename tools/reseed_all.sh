#!/bin/bash
# re-apply every filed seeded change to a scratch worktree of /repo HEAD and re-run the checks that are recorded as catching it
cd "$(dirname "$0")/.."
out=${1:-/var/tmp/vlog/reseed.txt}; : > $out
for d in seeded/*/; do
  sid=$(basename $d)
  checks=$(/venv/bin/python -c "import json;print(' '.join(json.load(open('$d/meta.json'))['caught_by'].keys()))")
  wt=/tmp/wt_r$sid
  git -C /repo worktree add --detach $wt HEAD -q 2>/dev/null
  if git -C $wt apply $PWD/$d/patch.diff 2>/dev/null; then
    res=$(tools/seed_try.sh r$sid $checks 2>&1 | grep "^== " | tr '\n' ' ')
    echo "$sid: $res" >> $out
  else
    echo "$sid: patch no longer applies to HEAD (the code it changes was repaired or moved)" >> $out
  fi
  git -C /repo worktree remove --force $wt
done
echo DONE >> $out
