#!/bin/bash
# ev.sh <sid> <props...>: copy the delivery to pending_seeds and evaluate
sid=$1; shift
cp -r /tmp/seed_$sid /var/tmp/pending_seeds/ 2>/dev/null
cd /verif && python3 tools/seed_eval.py $sid "$@" > /var/tmp/seedres/log_$sid.txt 2>&1
grep -v "^WARNING" /var/tmp/seedres/log_$sid.txt | cut -c1-500
