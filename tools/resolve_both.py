"""resolve git merge conflicts by keeping both sides (for the append-only files: Drivers.lean, SarpyModel.lean, gen_all.py)"""
import re, sys
for p in sys.argv[1:]:
    s = open(p).read()
    s = re.sub(r"<<<<<<< HEAD\n(.*?)=======\n(.*?)>>>>>>> [0-9a-f]+\n", lambda m: m.group(1) + m.group(2), s, flags=re.S)
    if p.endswith('.lean'):
        lines = s.split('\n')
        imp = [l for l in lines if l.startswith('import ')]
        rest = [l for l in lines if not l.startswith('import ')]
        seen, uniq = set(), []
        for l in imp:
            if l not in seen:
                seen.add(l); uniq.append(l)
        s = '\n'.join(uniq + rest)
    if p.endswith('gen_all.py'):
        # distinct result names per generator call
        n = [0]
        def ren(m):
            n[0] += 1
            return m.group(0)
        s = re.sub(r"\br(\d+) = (\w+)\.generate", lambda m: f"r_{m.group(2)} = {m.group(2)}.generate", s)
        s = re.sub(r"(import (\w+)\n\s+r_\w+ = \w+\.generate[^\n]*\n\s+print\([^\n]*?)\br\d+\b", lambda m: m.group(0), s)
    open(p, 'w').write(s)
