"""Regenerates MANIFEST.json from the table below (kept in one place so it is always schema-valid)."""
import json
import os

HERE = os.path.dirname(os.path.abspath(__file__))
ROOT = os.path.dirname(HERE)
ids = [json.loads(l)['id'] for l in open(os.path.join(ROOT, 'properties.jsonl'))]

TB = ('Lean 4.33.0 kernel; axioms propext/Classical.choice/Quot.sound only (audited per run); translator py2lean and the '
      'correspondence harness are trusted only as far as the differential run of the same check covers; see DESIGN.md section 7')

CHECKS = {
    'C01': dict(
        text='Lean 4 theorems (unbounded in axis length, start, stop, step of either sign) about the slice index algebra that every '
             'sarpy read goes through - subscript normalisation vs numpy semantics, result size, mirror image for reversed axes, block '
             'overlap routing, slice reversal, subset composition - proved for reference definitions and bridged by theorem to Lean code '
             'regenerated from the current Python on every run; N-dimensional tuple subscripts with an Ellipsis (verify_subscript): one '
             'item per axis, placement of the items, refusal exactly for two Ellipses or too many items, per-axis agreement with numpy, '
             'flat offsets of the N-d read equal numpy\'s selection in order, result size, no offset outside the stored array; '
             'completeness of the subscript gate: verify_slice / verify_subscript (Spec and the regenerated Python) accept exactly the '
             'declaratively supported set - non-zero step, bounds in [-n, n], non-empty numpy selection - and raise otherwise (hand '
             'model, tied by correspondence with verify_subscript, NumpyArraySegment reads and numpy); and the refinement theorem for the '
             'composition inside the segment classes: for every well-formed segment tree (array / memmap / file-read leaves, reverse + '
             'transpose, subsets with and without squeeze, band aggregates, block mosaics with holes and overlaps, complex IQ/QI pairs), '
             'any rank, shapes and normal subscript, read t ts = select (full t) ts (same shape, same elements, same order), advertised '
             'shapes = shapes of the full reads, reads never leave the stored arrays (Spec.Segment, a hand mirror of data_segment.py tied '
             'by provenance correspondence on random trees every run); a numpy oracle over random segment trees and readers covers '
             'the rest.',
        design='DESIGN.md 3.1, 6/C01',
        note='proved: per-axis kernels (Spec and Gen), N-d subscript expansion and flat-offset selection (Spec). The segment-tree model is hand-written (no translator): its '
             'fidelity is the provenance correspondence. Oracle only: complex with the band dimension kept, MP/PM and LUT format '
             'functions, block arrangements with step -1, raw-basis subsets, JPEG/HDF5 segments. ' + TB,
        technique='Lean 4 proof (induction/arith over Int) + py->Lean translator bridge + numpy-oracle differential'),
    'C07': dict(
        text='Lean 4 history theorems over a scatter model of writes: chunks on pairwise distinct raw positions commute, any permutation of '
             'a partition equals one whole-image write, every written sample is read back at its position, untouched positions keep their '
             'content, and the sample counter reports fully-written exactly when every position has been written (with the stated limit: a '
             'repeated chunk is not detected). The chunk -> raw position arithmetic is the C01 kernel set (proved and bridged to the '
             'regenerated Python). Routing theorem for arbitrary writable segment trees (Spec.Segment: leaves, reverse + transpose, '
             'subsets, band aggregates, tiling mosaics): the assignments a write performs are exactly sample-shown-at ts[idx] <- d[idx], '
             'after the write the full image is the old one updated at exactly the selected positions, chunks on disjoint positions '
             'commute (feeding the history theorems). The hypothesis that each real write is such a scatter is validated by observing '
             'every write on random writable segment trees, replaying the observed history in the Lean model, and by the write '
             'correspondence of the segment model.',
        design='DESIGN.md 3.2, 6/C07',
        note='proved: history/accounting theorems (unbounded in chunk count, order, store size) and per-axis kernels. Tied by correspondence: '
             'observed assignment histories vs the scatter model; numpy provenance oracle for the N-d routing. ' + TB,
        technique='Lean 4 proof (List.Perm.foldl_eq, induction) + translator bridge for kernels + observed-history correspondence'),
    'C16': dict(
        text='Lean 4 theorems over an arbitrary commutative ring and coefficient lists of any length: Horner evaluation, the in-place '
             'triangular re-centring transcribed sweep by sweep (eval (shift t0 a p) t = eval p (a t - t0), including the t0 = 0, a = 1 and '
             'single-coefficient fast paths), re-scaling, derivative arrays and evaluations of every order linked to Mathlib '
             'Polynomial.derivative, order minimisation in one and two variables (trimming trailing zero rows and columns preserves the '
             'polynomial), the two-variable shift on rectangular arrays and the componentwise vector case. '
             'The model runs in exact rationals and is compared with sarpy on generated inputs under a running-error bound.',
        design='DESIGN.md 6/C16',
        note='proved over commutative rings (hence R and Q); float64 rounding of the implementation is not proved - exact-rational '
             'correspondence with an error bound; loop->recursion step of the triangular update validated by that correspondence. ' + TB,
        technique='Lean 4 proof (induction over coefficient lists, Mathlib Polynomial) + exact-rational correspondence'),
    'C13': dict(
        text='Lean 4 theorems about the NITF fixed-width field codec, for every width, value, record length and loop count: zero-filled '
             'signed decimal and blank-filled text rendering have exactly the declared width when the value is accepted at assignment; '
             'decode(encode v ++ rest) = (v, rest) for fields, records (any list of fields) and counted loops; record length = sum of '
             'declared widths; an accepted value never spills into the neighbouring field. Field kinds, widths, loops and the list of '
             'classes with hand-written byte logic are re-read from the element classes by reflection on every run; every generated '
             'instance is re-encoded by the Lean codec and compared with to_bytes byte for byte. A second, richer format language '
             '(conditional parts decided by earlier fields, length-prefixed areas, computed counts and lengths, big-endian binary '
             'fields, nesting, loops) with one encoder / decoder / length function carries the same theorems for every well-formed '
             'description: round trip, exact length, re-encoding of conformant bytes, prefix-freeness, injectivity, back-to-back TRE '
             'envelopes; 30 descriptions (security tags, user-header areas, image comments / bands with LUT blocks and the XBANDS '
             'escape, item arrays, image / DES / text / graphics / RES subheaders of NITF 2.1 and 2.0, file headers, mask subheader, '
             'TRE envelope) are regenerated from the current classes (reflection + AST of the conditional code, cross-checking the '
             'encoder-side and decoder-side presence conditions) and each is kernel-decided well formed on every run.',
        design='DESIGN.md 3.5, 6/C13',
        note='proved: both codecs for all descriptions; the generated descriptions are well formed (kernel). Transcribed by hand inside the '
             'generator (marked there): LUT shape, band escape, item arrays, user-header area layout, mask tables, TRE envelope. '
             'Correspondence / oracle only: NITF 2.0 label and symbol subheaders, field layouts of the registered TREs, enumerated value '
             'sets, Python int() leniency on non-conformant input. Standard-side lengths are a hand transcription of MIL-STD-2500C. ' + TB,
        technique='Lean 4 proof (induction on widths/field lists) + reflection translator + byte-exact correspondence'),
    'C03': dict(
        text='Lean 4 theorems about the NITF layout arithmetic, unbounded in segment count and sizes: offsets computed as running sums '
             'tile the file (each item starts where its subheader ends, each subheader where the previous item ends, the last item ends at '
             'FL); the row segmentation covers [0, rows) by consecutive non-empty pieces within the row limit; decoding the '
             'display/attachment chain with relative locations returns exactly the segmentation; the complexity-level ladders regenerated '
             'from the current Python equal the MIL-STD-2500C table (bridge theorems over the translated code); for block-masked images '
             'the recorded blocks are packed consecutively, absent blocks are exactly the marked ones and the data length is mask table '
             '+ recorded blocks. Header and subheader lengths rest on the C13 record-length theorems. Every written file (SICD, SIDD and '
             'general NITFWriter output with blocked / block-masked images and text / DES / RES segments) is parsed by an independent '
             'parser written from the standard, including the mask table.',
        design='DESIGN.md 3.3, 3.4, 6/C03',
        note='proved: offsets/segmentation/ILOC/CLEVEL arithmetic. Correspondence: the writer bookkeeping (offsets, FL, ILOC chain, CLEVEL) '
             'vs the model on generated SICD/SIDD files; search/oracle: harness/nitfparse.py (hand transcription of the standard). IGEOLO '
             'numerics are checked numerically only; masked/blocked general-writer layouts are not generated. ' + TB,
        technique='Lean 4 proof (induction on segment lists / fuel) + translator bridge for CLEVEL ladders + out-of-band NITF parser'),
    'C02': dict(
        text='Lean 4 theorems composing C03 and C07: the segment stores after any history are the scatter histories of their own chunks '
             'and do not depend on flush placement; after close the in-memory (file-object) protocol has delivered exactly what the '
             'memmap (path) protocol holds; histories whose per-segment chunk lists are permutations of one another on distinct positions '
             'give the same file; routing image rows through the segmentation and reassembling them in the decoded order is the identity. '
             'Real files: random sizes, pixel types (incl. AMP8I_PHS8I with random tables), row limits, chunkings, orders, flushes and '
             'targets are written, compared byte for byte across histories, parsed out of band and reopened through open_complex.',
        design='DESIGN.md 6/C02',
        note='proved on the protocol/routing model (unbounded in sizes, segment count, history length); tied to NITFWriter by byte equality of '
             'real outputs across protocols and histories, not by a translator. Pixel codecs: C08. Metadata: compared after derive(). ' + TB,
        technique='Lean 4 proof (composition of C03/C07 theorems, state-machine induction) + byte-exact differential over histories'),
    'C10': dict(
        text='Lean 4 theorem regroup_iidList: for any number of product images and any positive number of segments per image, the '
             "reader's IID1-based regrouping of the image segments the writer emits returns exactly the writer's grouping, in order, and "
             'the groups partition the segment indices; headers naming an image beyond the SIDD count are refused. Row routing per image and '
             'file layout are the C02/C03 theorems. Real SIDD files (1-4 images, three pixel types, row limits, chunk orders, path/BytesIO, '
             'embedded SICD) are written, parsed out of band, regrouped by the model and reopened through open_product.',
        design='DESIGN.md 6/C02 (C10 paragraph)',
        note='proved: regrouping decision logic (unbounded counts). Correspondence: IID1 element numbers/groups of real files vs the model. '
             'SIDD structures of versions 1, 2 and 3 are generated; write histories include chunks interleaved across images and non-forced flushes on in-memory targets. ' + TB,
        technique='Lean 4 proof (induction over image list) + write/read differential + out-of-band NITF parser'),
    'C09': dict(
        text='Lean 4 theorems about the CPHD block layout as make_file_header computes it, for all sizes: _align rounds up to a multiple of '
             '64 by less than 64; XML (+ terminator), [SUPPORT], PVP and SIGNAL are ordered and non-overlapping, each data block is 64-byte '
             'aligned with padding < 64; whenever the retry rule returns a layout, header text and terminator end before the XML block; for '
             'packed relative offsets the per-channel / per-array ranges tile their block. Each generated file is parsed by an independent '
             'byte-level parser and reopened through open_phase_history (PVP fields, support arrays, raw and formatted signal incl. '
             'sub-regions, metadata), and the header sarpy computed is compared with the model.',
        design='DESIGN.md 6/C09',
        note='proved: layout arithmetic. The header-text length and the retry recursion are modelled abstractly (fuel). Correspondence: header '
             'numbers of written files vs model; differential write/read over channels x formats x AmpSF x support arrays x non-ASCII text x '
             'write orders x targets. No signal compression. ' + TB,
        technique='Lean 4 proof (omega over alignment arithmetic, induction on retry fuel) + byte-level parser + write/read differential'),
    'C08': dict(
        text='Lean 4 theorems: pair (de)interleaving is exactly invertible for any band count and either order; over the reals and for any '
             'bit depth every stored magnitude/phase pair with non-zero magnitude is a fixed point of decode-then-encode (Complex.arg polar '
             'form, wrap to [0, 2 pi)), the decoded value has the stored magnitude, and at zero magnitude decoding is provably not injective '
             '(the format loses the phase: stated, not hidden); for a strictly increasing amplitude table the repaired inverse returns the '
             'index of an exact table value; the amplitude scale factor inverts exactly and integer samples survive scale/unscale/round. '
             'The implementation is run exhaustively on all 2^16 byte pairs (MP, PM, amplitude tables) and on a dtype x order x axis matrix.',
        design='DESIGN.md 6/C08',
        note='proved over the reals; float rounding of cos/sin/atan2 and numpy casting are covered by the exhaustive 8-bit runs and by sampling '
             'for 16-bit, not proved. One-step quantisation bounds for arbitrary in-range values are not yet a theorem (fixed points and exact '
             'inverses are). ' + TB,
        technique='Lean 4 proof (Mathlib Complex.arg, trig identities) + exhaustive 2^16 differential on the implementation'),
    'C12': dict(
        text='Lean 4 theorems over the reals, for every latitude, longitude, height and reference point: the ECF->NED and ECF->ENU '
             'matrices exactly as geocoords.py builds them are orthogonal with determinant +1; ECF<->NED and ECF<->ENU conversions '
             'invert each other in absolute and relative mode and preserve length; wgs_84_norm is a unit vector; with the constants as '
             'the module derives them (a = 6378137, 1/f = 298.257223563) height-0 points satisfy x^2/a^2+y^2/a^2+z^2/b^2 = 1, a point '
             'of height h is the surface point plus h times the ellipsoid normal, and that normal is the ENU up axis; ordering and '
             'array-shape handling are permutation/map lemmas. Of the closed-form inverse only the longitude component and the '
             'equatorial case are proved; its exactness in general is a named, unproved proposition, tied numerically: the same '
             'definitions run at Float agree with sarpy, and sarpy\'s results are compared with a 50-digit evaluation of the WGS-84 '
             'forward map on a seeded grid (poles, equator, antimeridian, z = 0, heights -1e4..1e8, both orderings, many shapes).',
        design='DESIGN.md 3.7, 6/C12',
        note='proved over R: rotations, round trips, unit normal, surface identity, height along the normal, ordering/shape. NOT proved: '
             'exactness of the closed-form inverse (C12_inverse_exact is a definition), injectivity of the forward map in latitude; '
             'accuracy figures (1e-6 m / 1e-9 deg) are floating point and hold by correspondence + high-precision oracle on the '
             'sampled grid only. ' + TB,
        technique='Lean 4 proof (Mathlib real trigonometry, ring/linear_combination) + Float-instantiated model correspondence + '
                  '50-digit mpmath oracle in a side process'),
    'C17': dict(
        text="Lean 4 theorems over R about sarpy's remap transfer functions: clip-and-cast lands in [0, max] for every input including "
             'NaN/+-inf; Density family, PEDF, Linear, Logarithmic and NRL transfer functions are non-decreasing in amplitude (compositions '
             'of monotone maps, Real.log monotone); a remap with fixed global parameters is a List.map and therefore equal over any '
             'chunking / pixel by pixel and independent of every other pixel; LUT remaps are table lookup of the monochrome result. The same '
             'definitions, run at IEEE double, are compared with every registered remap (8/16 bit) on adversarial arrays each run, and a '
             'direct oracle checks range, monotonicity, 5 chunkings, pixel-by-pixel and NaN/inf replacement on the implementation.',
        design='DESIGN.md 6/C17',
        note='proved over R for the model; partial: float rounding, numpy NaN cast, GDM cut-off derivation and the reader statistics are '
             'tied by correspondence / oracle only; that the code is pointwise is checked by the oracle (the all-zero chunk shortcut that '
             'broke it was repaired; the proved negation witness of the old code is kept in Props/C17). ' + TB,
        technique='Lean 4 proof (order lemmas, Real.log monotone, List.map/flatten) + Float-instantiated model correspondence + '
                  'chunking/monotonicity oracle on the implementation'),
    'C14': dict(
        text='Lean 4 theorems about a decision model of the openers (file = signature + image-segment classes + graphics count + '
             'DES id/payload list, any lengths): sarpy.io.open and the per-family trial loops are first-accept cascades; _find_sicd '
             'and _find_sidd are characterised over arbitrary DES lists; for every descriptor the SICD / SIDD / CPHD / CRSD writer '
             'models produce (any number of additional DES in front, any number of products, segments and embedded SICD DES) exactly '
             'the right family opener accepts with the right reader kind, for path and file object, the other three reject, and the '
             'top-level open returns the same kind; signature-less descriptors are rejected by every opener. The model is tied on '
             'every run by extracting the descriptor of ~530 (quick) real files with an independent parser and comparing all 8 entry '
             'point cells and SICDDetails/SIDDDetails with the model, and by a recipe-based oracle over the opener x file-kind matrix '
             'incl. signature-less strings of every length 0..64 and powers of two to 1 MiB.',
        design='DESIGN.md 6/C14',
        note='proved: cascade, DES discrimination, exclusivity on writer descriptors, signature-less rejection (decision logic). '
             'Correspondence only: that real files reduce to their descriptor; vendor openers; NITF 2.0; reader construction beyond '
             'SIDD bookkeeping. One source switch (SIDDDetails refuses graphics) is re-read from the source each run. ' + TB,
        technique='Lean 4 proof (induction over DES / image lists, decide on finite cases) + out-of-band descriptor correspondence + matrix oracle'),
    'C11': dict(
        text='Lean 4 theorems for the CRSD instantiation of the block layout, for all sizes and header strings: blocks ordered, pairwise '
             'disjoint, 64-aligned, file end = SIGNAL offset + size, padding < 64 per block; omitting the SUPPORT block equals an empty one; '
             'for whatever layout the retry rule of make_file_header returns, header text (explicit length model) and terminator end before '
             'the 64-aligned XML block; packed relative offsets make channels / support arrays tile their block exactly. Every generated '
             'file (schema-valid CRSD built in code) is parsed by an independent byte-level parser, its payload bytes are compared at the '
             'computed positions, it is reopened through open_received (all PVP fields, support arrays, raw / formatted signal incl. '
             'sub-regions, metadata), and the header numbers are compared with the model.',
        design='DESIGN.md 6/C09 (C11 paragraph)',
        note='proved: layout / header-fit / tiling arithmetic. Not proved: termination of the retry (fuel). Correspondence: header numbers, '
             'header text length and retry, element ranges of written files vs model; differential write/read over channels x formats x '
             'AmpSF x PVP groups x support array kinds x text x header strings x write orders x identifiers x targets. ' + TB,
        technique='Lean 4 proof (omega, induction on retry fuel and on element lists, reuse of C09 lemmas) + two byte-level parsers + '
                  'payload byte comparison + write/read differential'),
    'C04': dict(
        text='Lean 4 theorems over the reals about the SICD projection model as sarpy builds it: the point returned by the R/Rdot-contour / '
             'plane intersection lies on the plane, at range R from the ARP and has range rate Rdot, for every image formation branch, '
             'adjustable parameter set and plane, under explicit non-degeneracy hypotheses (each shown satisfiable); results are pointwise, '
             'hence independent of batch, order and block size; exit conditions of the constant-height and ground-to-image iterations; PFA / '
             'INCA range-rate formulas are the time derivatives of the range formulas. The same definitions run on IEEE doubles and are '
             'compared with sarpy on synthetic structures of every branch; an independent Volume-3 oracle checks surface, contour, round '
             'trip, invariances and wrappers on the implementation.',
        design='DESIGN.md 6/C04',
        note='proof, partial: real-number core proved; float code tied by tolerance correspondence (alarm 1e-4 m / 1e-3 pixel, noise 1e-8); '
             'convergence of the iterations, the final slant-plane correction of the HAE method and DEM projection are not theorems (oracle '
             'only / not covered). One open known finding: g2i-exit-coupled-to-batch. ' + TB,
        technique='Lean 4 proof (vector algebra by ring/linear_combination/field_simp, Real.sqrt, HasDerivAt) + bit-exact Float '
                  'correspondence + independent SICD Volume 3 oracle'),
    'C19': dict(
        text='Lean 4 theorems, by induction over arbitrary operation histories, about two life-cycle state machines (reader / segment '
             'tree with ownership options, file objects and temp files; writer with target ownership, in-memory vs real-file delivery, '
             'pixel accounting): close idempotent and equal to context exit, every use after close refused with state unchanged, temp '
             'files removed exactly at close, close reaches exactly what the ownership options say, caller file objects never closed '
             'and owned ones closed, a closed writer always leaves the full declared size, existing path refused iff the check is on; '
             'accounting clauses (never claims fully written unless complete; complete output in the caller file) for histories that do '
             'not rewrite a row, with a proved counter-example otherwise. The machines are tied to sarpy on every run by op-history '
             'correspondence over segment trees, generic / file readers and the NITF, SICD, SIDD, CPHD, SIO writers on path / BytesIO / '
             'caller-opened file targets, plus a direct oracle of the clauses.',
        design='DESIGN.md 3.8, 6/C19',
        note='proof, partial: proved on the model for all histories; model <-> code by differential op traces (448 quick / ~11k thorough '
             'histories incl. exhaustive short ones); GC is only del+collect under CPython, OS/page cache assumed, JPEG temp-file '
             'readers, HDF5, CRSD and multi-segment NITF writers not exercised; DAG sharing only by oracle. One open known finding: '
             'fully-written-claim-counts-rewritten-pixels. ' + TB,
        technique='Lean 4 proof (invariants by induction over op lists) + op-sequence line-protocol correspondence + direct property '
                  'oracle on observed object / file state'),
    'C05': dict(
        text='Lean 4 theorems about a table-driven model of Serializable.to_node/from_node/to_dict/from_dict/copy: for every well-formed '
             'set of class tables, every class, nesting depth, subset of present fields and collection length, parse(serialize v) = v, '
             're-serialisation is identical, from_dict(to_dict v) = v and copy v = v, with the primitive text codecs as an abstract '
             'parameter under an explicit round-trip hypothesis. The tables of all 370 metadata classes (300 table-driven, 70 with '
             'hand-written logic as black boxes) are regenerated by reflection on every run and their well-formedness is re-decided by '
             'the Lean kernel; every generated instance is serialised by the Lean model and compared node by node with the XML sarpy '
             'wrote, and an oracle checks field-by-field, bit-exact round trips through XML, dict and copy on the implementation for '
             'every class.',
        design='DESIGN.md 6/C05',
        note='proof, partial: generic codec over arbitrary well-formed tables (XML, dict, copy) proved. Correspondence only: float/int/'
             'date text conversion (bit-exact sampling), the 70 classes with hand-written or property-backed logic, constructor side '
             'effects, canonicalising descriptors (tolerance). Empty collection = absent collection on the XML path. Two open known '
             'findings (string edge whitespace, empty string in collections). ' + TB,
        technique='Lean 4 proof (induction on depth, list lemmas) + reflection translator with kernel-decided well-formedness + '
                  'node-by-node model/implementation differential + bit-exact round-trip oracle'),
    'C18': dict(
        text='Lean 4 theorems, by induction over arbitrary lists of checks and steps: the need/want/precondition runner of consistency.py '
             'as a state machine - Error-level verdict iff no executed need failed and nothing raised, totality (an exception is a '
             'recorded failure of its own check), precondition skipping/resumption, wants never produce an Error (but do clear the '
             'Python flag); every CPHD layout of make_file_header satisfies the five header rules and the signal-fits rule, the '
             'writer DES header satisfies the DESSHTN/DESSHSV rule, FL equals the end of the last segment; each arithmetic mutation of '
             'the catalogue falsifies its rule. Tied to sarpy by runner correspondence on generated toy checkers, file-rule '
             'correspondence on independently parsed bytes, and an acceptance / 38-mutation oracle on the real checkers.',
        design='DESIGN.md 6/C18',
        note='proof, partial: runner and file-level rules proved; the several hundred content rules of validation_checks.py / '
             'cphd_consistency.py are differential only (valid products accepted, seeded content mutations flagged); consistent CPHD '
             'products from the minimal 1.1.0 template; SICD/SIDD checkers modelled only in their DES rule. Four open known findings '
             '(two construction-time crashes of the CPHD checker, two rejections of create_subset_structure metadata). ' + TB,
        technique='Lean 4 proof (induction, omega) + runner correspondence on generated toy checkers + file-rule correspondence on '
                  'independently parsed bytes + acceptance / mutation-catalogue oracle on the real checkers'),
    'C20': dict(
        text='Lean 4 theorems over the reals, for every plane, window, coordinate, product size and block size: the PGProjection '
             'ortho-grid <-> ECF maps are mutually inverse for orthonormal axes and the plane written into the SIDD names the same '
             'ground point as the ortho grid; numpy.digitize on consecutive lines is floor+1, so the unrepaired index function reads '
             'source line floor(x)+1, which is the nearest line exactly when the fractional part is >= 1/2 (negation witness at integer '
             'coordinates), while the repaired index function (digitize, then step back when the lower line is strictly closer) is '
             'the nearest line everywhere inside the mask; the nearest line is within 1/2 and minimal; pad value outside the window; '
             'blocks assembled over any consecutive tiling equal the whole product. Tied to the source by Float correspondence (which '
             'of the two index models the implementation follows is reported per run) and by an end-to-end oracle that projects '
             'every product pixel through the product\'s own metadata into the source.',
        design='DESIGN.md 6/C20',
        note='proof, partial: projection numerics (C04), block window sufficiency and IEEE rounding are by correspondence; the half-pixel '
             'rim is accepted either way; ties within 2.5e-3 px are undecided; PGRatPolyProjection / DEM not covered. ' + TB,
        technique='Lean 4 proof (Mathlib floor/round, linear_combination, list induction on C03 tilings) + Float-instantiated model '
                  'correspondence + end-to-end product oracle (SIDD metadata -> ground -> source pixel)'),
    'C15': dict(
        text='Lean 4 theorems (all axis lengths, all windows, any nesting depth, all block sizes) about the integer core of chipping: a '
             'row/column window is a step-1 normal slice of C01; a chip of a chip is the composed window (valid, associative, same '
             'parent indices - derived from compose_spec of C01); the First/Num arithmetic and bounds check of create_subset_structure '
             'compose (one call with the composed bounds = any chain of calls, None bounds included); chip pixel (r, c) and parent '
             'pixel (r + r0, c + c0) have identical offsets from the scene centre pixel, hence identical projection arguments (over '
             'any ring); the row-block loop of the converter covers every chip row exactly once and writes the parent rows of the '
             'window for every max_block_size. Tied to the code by a line-protocol correspondence (subset structures, projection '
             'shifts, SubsetSegment chains, rows-per-block and the observed write_chip blocks) and searched by a direct oracle on real '
             'SICD files of every pixel type: subset reader, subset metadata, conversion_utility / create_chip output, projection of '
             'chip vs parent pixels in both directions, chips of chips.',
        design='DESIGN.md 6/C15',
        note='proof, partial: window / metadata / shift / tiling algebra proved (Int, Nat, List; unbounded). By correspondence only: that '
             'the implementation computes these quantities (no translator). By numerical comparison on the implementation only: '
             'projection (1e-6 m, 1e-6 pixel; ground_to_image both converged and with default tolerance), corner re-derivation '
             '(1e-9 deg). Pixel routing / decoding / file layout are C01 / C08 / C02 / C03. ' + TB,
        technique='Lean 4 proof (integer arithmetic, list induction, reuse of C01/C02/C03 theorems) + correspondence through a run-time '
                  'wrapper of SICDWriter.write_chip + file-level differential oracle (numpy slicing, projection both ways)'),
    'C06': dict(
        text='Lean 4 theorem, unbounded in document size and depth: a class table that conforms to an XSD content model (same child names '
             'and order, bounds compatible with the row kind, every attribute has a row) parses and re-serialises every valid tree into a '
             'valid tree with the same elements, attributes and values in the same order (roundtrip_equiv, roundtrip_valid, and the '
             'decidable closedB presentation c06_roundtrip_partial); conformance of every (class, complex type) pair of all 16 bundled '
             'schema versions is decided by the kernel on tables regenerated from the XSDs and the element classes on every run (1011 '
             'pairs; failing obligations are the table-level view of the listed findings); how attributes are namespaced is measured '
             'on the implementation with a probe class; every version is exercised with lxml-validated generated documents and variants '
             '(pairwise coverage of optional-element subsets in the thorough tier) through the real parse / serialise, and the model '
             'validity verdicts are compared with lxml.',
        design='DESIGN.md 6/C06',
        note='proof, partial: XSD fragment = sequences of element particles, one level of non-repeating choice, attributes with use; classes '
             'overriding to_node/from_node are opaque (216 pairs outside the fragment, listed per run), values are opaque strings; the '
             'rest by the document oracle with lxml as the definition of validity. 72 open known findings in 9 groups (SICD 0.x output, '
             'CRSD AddedParameters, SIDD ISM attributes / annotations / display / compression blocks, SIDD 1.0 structures, derived '
             'RcvDemodType, descriptor domains); nine root causes repaired in sarpy. ' + TB,
        technique='Lean 4 proof (structural induction over XML trees, list permutation) + XSD/class-table translator with per-pair kernel '
                  'decision + lxml-validated document oracle'),
}


def main():
    # later rounds override / extend the strings of a property through tools/manifest_texts/<id>.json:
    #   {"text": ..., "note": ... (TB is appended), "technique": ..., "text_append": ..., "note_append": ..., "technique_append": ...}
    tdir = os.path.join(HERE, 'manifest_texts')
    for pid in list(CHECKS):
        f = os.path.join(tdir, pid + '.json')
        if os.path.exists(f):
            o = json.load(open(f))
            c = CHECKS[pid]
            if 'text' in o:
                c['text'] = o['text']
            if 'note' in o:
                c['note'] = o['note'] + ' ' + TB
            if 'technique' in o:
                c['technique'] = o['technique']
            if 'text_append' in o:
                c['text'] = c['text'].rstrip() + ' ' + o['text_append']
            if 'note_remove' in o:
                c['note'] = c['note'].replace(o['note_remove'], '')
            if 'note_append' in o:
                c['note'] = c['note'].replace(' ' + TB, '').rstrip() + ' ' + o['note_append'] + ' ' + TB
            if 'technique_append' in o:
                c['technique'] = c['technique'] + o['technique_append']
    checks = []
    for pid in ids:
        if pid not in CHECKS:
            continue
        c = CHECKS[pid]
        checks.append({
            'property_id': pid,
            'quick_cmd': f'./check {pid} --tier quick',
            'thorough_cmd': f'./check {pid} --tier thorough',
            'evidence_file': f'evidence/{pid}.json',
            'replay_cmd_template': f'./check {pid} --replay {{path}}',
            'engine': 'lean4+harness',
            'level_claimed': {'category': 'proof', 'text': c['text'], 'design_ref': c['design']},
            'level_note': c['note'],
            'technique': c['technique'],
        })
    m = {
        'version': 1,
        'setup_cmd': './tools/setup.sh',
        'hooks': {'guard': 'SARPY_VERIF',
                  'enable': 'no source hooks: the harness observes sarpy from outside (wrappers and proxies at run time)',
                  'baseline_off_cmd': 'cd /repo && /venv/bin/python -m pytest -ra -q -p no:cacheprovider --timeout=900 --continue-on-collection-errors',
                  'source_commits': [], 'add_only': True},
        'engines': [{'name': 'lean4+harness', 'path': 'check', 'serves_properties': sorted(CHECKS),
                     'kind_free_text': 'Lean 4 models and theorems (lean/), regenerated Gen files (translate/), correspondence harness (harness/)'}],
        'checks': checks,
        'notes': 'Lean 4 models + theorems under lean/, tied to /repo by translator (Gen/) and correspondence harness (harness/). See DESIGN.md.',
        'not_applicable': [{'property_id': i,
                            'reason': 'not claimed yet: machinery for this property is not built (the technique applies; see DESIGN.md section 6)'}
                           for i in ids if i not in CHECKS],
    }
    json.dump(m, open(os.path.join(ROOT, 'MANIFEST.json'), 'w'), indent=1)


if __name__ == '__main__':
    main()
