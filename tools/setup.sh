#!/bin/bash
# setup: regenerate the Lean files derived from /repo and build everything once.
# A failing module must not prevent the other checks from running: every check rebuilds what it needs and reports for itself.
cd "$(dirname "$0")/.." || exit 2
/venv/bin/python translate/gen_all.py || echo "setup: generation failed (checks will report)"
cd lean || exit 2
lake build SarpyModel SarpyModel.Drivers || { echo "setup: full build failed, building what builds"; lake build SarpyModel.Drivers || true; }
exit 0
