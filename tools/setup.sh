#!/bin/bash
# setup: regenerate the Lean files derived from /repo and build everything once.
# A failing module must not prevent the other checks from running: every check rebuilds what it needs and reports for itself.
cd "$(dirname "$0")/.." || exit 2
/venv/bin/python translate/gen_all.py || echo "setup: generation failed (checks will report)"
cd lean || exit 2
# every module of the library (models, generated files, bridges, theorems, drivers), so that no check pays a first-build cost
mods=$(find SarpyModel -name '*.lean' | sed 's/\.lean$//; s#/#.#g' | sort)
lake build SarpyModel $mods || { echo "setup: full build failed, building what builds"; for m in $mods; do lake build $m > /dev/null 2>&1 || echo "setup: $m does not build"; done; }
exit 0
