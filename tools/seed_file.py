"""file a confirmed seeded change evaluated by seed_eval.py: seed_file.py <agent_sid> <variant ''|_b> <new_sid> <Cxx> <site> <needs> <caught_json>"""
import json, os, shutil, sys
asid, variant, nsid, prop, site, needs, caught = sys.argv[1:8]
res = json.load(open(f'/var/tmp/seedres/{asid}{variant}.json'))
assert res['confirmed'], 'not confirmed'
dst = f'/verif/seeded/{nsid}'
assert not os.path.exists(dst), dst + ' exists'
os.makedirs(dst)
shutil.copy(f'/tmp/seed_{asid}/patch{variant}.diff', f'{dst}/patch.diff')
shutil.copy(f'/tmp/seed_{asid}/demo{variant}.py', f'{dst}/demo.py')
json.dump({'property': prop, 'site': site, 'needs': needs,
           'ran': [f"demo.py exit {res['demo_with']} with the change / {res['demo_without']} without",
                   f"whole sarpy test suite with the change: {res['tests']} (the 2 failures are test_polygons / test_line_string, which fail on the unchanged tree too)"],
           'caught_by': json.loads(caught)}, open(f'{dst}/meta.json', 'w'), indent=1)
print('saved', dst)
