#!/bin/bash
# evaluates round-5 deliveries as they appear (REPORT.md present and untouched for 120 s, worktree clean); two evaluations at a time
declare -A PROPS=( [01]="C01 C07" [02]="C02 C03" [03]="C03 C02" [04]="C04 C15" [05]="C05 C06" [06]="C06 C05" [07]="C07 C19" [08]="C08 C02" [09]="C09 C11" [10]="C10 C03" [11]="C11 C09" [12]="C12 C04" [13]="C13 C03" [14]="C14" [15]="C15 C01" [16]="C16" [17]="C17 C20" [18]="C18" [19]="C19 C07" [20]="C20" )
done_list=/var/tmp/seedres/r5_done.txt; touch $done_list
end=$(( $(date +%s) + 9000 ))
while [ $(date +%s) -lt $end ]; do
  for i in $(seq -w 1 20); do
    sid=r5c$i
    grep -q "^$sid$" $done_list && continue
    rep=/tmp/seed_$sid/REPORT.md
    [ -f $rep ] || continue
    age=$(( $(date +%s) - $(stat -c %Y $rep) ))
    [ $age -lt 120 ] && continue
    [ -n "$(git -C /tmp/wt_$sid status --short 2>/dev/null | grep -v __pycache__)" ] && continue
    while [ $(jobs -r | wc -l) -ge 2 ]; do sleep 5; done
    echo $sid >> $done_list
    ( /var/tmp/ev.sh $sid ${PROPS[$i]} > /var/tmp/seedres/out_$sid.txt 2>&1 ) &
  done
  [ $(wc -l < $done_list) -ge 20 ] && break
  sleep 20
done
wait
echo all-evaluated
