"""prepare a scratch worktree + seed dir for a seeded-change sub-agent: prep_seed.py <sid> <Cxx>"""
import json, os, subprocess, sys
sid, prop = sys.argv[1:3]
wt, sd = f'/tmp/wt_{sid}', f'/tmp/seed_{sid}'
subprocess.run(['git', '-C', '/repo', 'worktree', 'add', '--detach', wt, 'HEAD'], check=True, capture_output=True)
os.makedirs(sd, exist_ok=True)
for line in open('/verif/properties.jsonl'):
    r = json.loads(line)
    if r['id'] == prop:
        open(f'{sd}/PROPERTY.txt', 'w').write(f"{r['title']}\n\n{r['statement']}\n\nQuantified over: {r['quantifier']['text']}\n\nAnchors in the code: {json.dumps(r['anchors'])}\n")
print(wt, sd)
