"""confirm a seeded change (demo fails with it / passes without; given tests pass with it) and file it under seeded/<id>/"""
import json, os, shutil, subprocess, sys
sid, prop, site, needs, tests = sys.argv[1:6]
caught = json.loads(sys.argv[6]) if len(sys.argv) > 6 else {}
wt, sd = f'/tmp/wt_{sid}', f'/tmp/seed_{sid}'
env = dict(os.environ, PYTHONDONTWRITEBYTECODE='1')
r1 = subprocess.run(['/venv/bin/python', f'{sd}/demo.py'], cwd=wt, env=dict(env, PYTHONPATH=wt), capture_output=True, text=True, timeout=1800)
r0 = subprocess.run(['/venv/bin/python', f'{sd}/demo.py'], cwd='/tmp', env=dict(env, PYTHONPATH='/repo'), capture_output=True, text=True, timeout=1800)
rt = subprocess.run(['/venv/bin/python', '-m', 'pytest', '-q', '-p', 'no:cacheprovider', '--timeout=900'] + tests.split(), cwd=wt, env=dict(env, PYTHONPATH=wt), capture_output=True, text=True, timeout=3000)
line = [l for l in rt.stdout.splitlines() if 'passed' in l or 'failed' in l][-1:]
print('demo with change exit', r1.returncode, '| without', r0.returncode, '| tests', line)
ok = r1.returncode == 1 and r0.returncode == 0 and line and 'failed' not in line[0]
if not ok:
    print('NOT CONFIRMED'); print(r1.stdout[-500:], r0.stdout[-500:], rt.stdout[-800:]); sys.exit(1)
dst = f'/verif/seeded/{sid}'
os.makedirs(dst, exist_ok=True)
shutil.copy(f'{sd}/patch.diff', dst); shutil.copy(f'{sd}/demo.py', dst)
json.dump({'property': prop, 'site': site, 'needs': needs,
           'ran': [f'demo.py exit {r1.returncode} with the change / {r0.returncode} without', f'pytest {tests}: {line[0]} (with the change)'],
           'caught_by': caught}, open(f'{dst}/meta.json', 'w'), indent=1)
subprocess.run(['git', '-C', '/repo', 'worktree', 'remove', '--force', wt])
shutil.rmtree(sd, ignore_errors=True)
print('saved', dst)
