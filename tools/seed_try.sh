#!/bin/bash
# try a seeded change without touching /repo: run checks from a scratch copy of /verif against the seed's worktree
# usage: seed_try.sh <sid> <Cxx> [<Cyy> ...]     (worktree /tmp/wt_<sid> must carry the change)
sid=$1; shift
S=/var/tmp/vseed_$sid
rm -rf $S; rsync -a --exclude replay --exclude evidence /verif/ $S/; mkdir -p $S/evidence
for id in "$@"; do
  out=$(SARPY_REPO=/tmp/wt_$sid PYTHONPATH=/tmp/wt_$sid timeout 3000 $S/check $id --tier quick 2>&1); rc=$?
  echo "== $sid $id rc=$rc"; echo "$out" | grep -v KNOWN-FINDING | tail -4
  for f in $(echo "$out" | grep -o 'replay=[^ ]*' | cut -d= -f2 | head -2); do /venv/bin/python -c "
import json,sys;d=json.load(open('$f'));print('   replay:',str(d.get('what') or list(d.keys()))[:400])"; done
done
rm -rf $S
