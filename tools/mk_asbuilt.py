"""Regenerate the machine-collected tables of DESIGN.md section 11 (between the AS-BUILT markers) from the committed state:
MANIFEST.json, evidence/*.json, seeded/*/meta.json, known_findings.json and the Lean sources."""
import glob
import json
import os
import re
import subprocess

V = os.path.dirname(os.path.dirname(os.path.abspath(__file__)))


def lean_stats():
    out = {}
    for sub in ('Spec', 'Props', 'Proofs', 'Bridge', 'Drivers'):
        n = 0
        files = glob.glob(os.path.join(V, 'lean', 'SarpyModel', sub, '*.lean'))
        for f in files:
            n += sum(1 for _ in open(f))
        out[sub] = (len(files), n)
    return out


def main():
    man = json.load(open(os.path.join(V, 'MANIFEST.json')))
    kf = json.load(open(os.path.join(V, 'known_findings.json')))
    lines = []
    lines.append('### 11.1 Status per property (collected from MANIFEST.json and the committed evidence)\n')
    lines.append('| id | theorems audited | quick: evaluations on the implementation | quick wall s | seeded changes (caught / filed) | open findings | sarpy fixes |')
    lines.append('|----|-----|-----|-----|-----|-----|-----|')
    seeds = {}
    for m in sorted(glob.glob(os.path.join(V, 'seeded', '*', 'meta.json'))):
        d = json.load(open(m))
        seeds.setdefault(d['property'], []).append((os.path.basename(os.path.dirname(m)), d))
    claimed = [c['property_id'] if 'property_id' in c else c.get('property') for c in man.get('checks', [])]
    claimed = [c for c in claimed if c]
    for pid in sorted(claimed):
        ev = {}
        p = os.path.join(V, 'evidence', pid + '.json')
        if os.path.exists(p):
            ev = json.load(open(p))
        cov = ev.get('coverage', {})
        ss = seeds.get(pid, [])
        caught = sum(1 for _, d in ss if d.get('caught_by'))
        nopen = sum(1 for e in kf['open'] if e['property'] == pid)
        nfix = sum(1 for e in kf['fixed'] if f'property={pid} ' in e)
        lines.append(f"| {pid} | {cov.get('discharged', '?')}/{cov.get('obligations', '?')} | {cov.get('evaluations', '?')} | {ev.get('wall_s', '?')} | {caught}/{len(ss)} | {nopen} | {nfix} |")
    na = man.get('not_applicable', [])
    if na:
        lines.append('\nNot claimed (listed under `not_applicable` in MANIFEST.json with the reason): ' + ', '.join(sorted(e['property_id'] if isinstance(e, dict) else e for e in na)) + '.')
    st = lean_stats()
    lines.append('\nLean sources: ' + '; '.join(f'{k} {a} files / {b} lines' for k, (a, b) in st.items()) + ' (generated `Gen/*` files are rebuilt from /repo on every run and are not counted).\n')
    lines.append('### 11.1a What each check proves and how it is tied (from MANIFEST.json; the plan for each is in section 6)\n')
    for c in sorted(man.get('checks', []), key=lambda c: c['property_id']):
        lc = c['level_claimed']
        note = c.get('level_note', '').split(' Lean 4.33.0 kernel;')[0]
        lines.append(f"* **{c['property_id']}** ({lc['category']}; {c.get('technique', '')}). {lc['text']} *Limits:* {note}\n")
    lines.append('### 11.2 Detection matrix: seeded changes (each passes sarpy\'s own tests) and the check that reports them\n')
    lines.append('Every change below was written by a fresh sub-agent that saw only the property text, confirmed by `tools/save_seed.py` (demo fails with the change, passes without; '
                 'the named tests pass with it), applied to /repo with `git apply`, checked, and reverted. The patch and the demonstration are in `seeded/<id>/`.\n')
    lines.append('| seed | property | change | needs | reported by |')
    lines.append('|----|----|----|----|----|')
    for pid in sorted(seeds):
        for sid, d in seeds[pid]:
            cb = '; '.join(f'**{k}**: {v}' for k, v in d.get('caught_by', {}).items()) or 'NOT CAUGHT'
            lines.append(f"| {sid} | {pid} | {d['site']} | {d['needs']} | {cb} |".replace('\n', ' '))
    lines.append('\n### 11.3 Genuine sarpy defects found by the machinery\n')
    lines.append('Open (the check prints `KNOWN-FINDING:` for each and exits 0; any other failure of the same property is still a VIOLATION):\n')
    for e in kf['open']:
        lines.append(f"* **{e['property']} `{e['key']}`** - {e['what']} ({e['where']}). Not repaired: {e.get('why_not_fixed', 'see notes')}")
    lines.append('\nRepaired in /repo, one `fix:` commit each (a fixed entry suppresses nothing; the check reports it again if it returns):\n')
    for e in kf['fixed']:
        lines.append('* ' + e[len('fixed: '):])
    body = '\n'.join(lines) + '\n'
    dp = os.path.join(V, 'DESIGN.md')
    s = open(dp).read()
    b, e = '<!-- AS-BUILT:BEGIN -->', '<!-- AS-BUILT:END -->'
    if b not in s:
        raise SystemExit('markers missing in DESIGN.md')
    s = s[:s.index(b) + len(b)] + '\n' + body + s[s.index(e):]
    open(dp, 'w').write(s)
    print('DESIGN.md section 11 tables regenerated:', len(lines), 'lines')


if __name__ == '__main__':
    main()
