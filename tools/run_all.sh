#!/bin/bash
# run every registered quick check on the current tree (sequentially) and summarise
cd "$(dirname "$0")/.."
ids=$(/venv/bin/python -c "import json;print(' '.join(c['property_id'] for c in json.load(open('MANIFEST.json'))['checks']))")
for id in $ids; do
  out=$(timeout 3000 ./check $id --tier ${1:-quick} 2>&1); rc=$?
  echo "$id rc=$rc $(echo "$out" | grep -E '^\[' | tail -1) $(echo "$out" | grep -c VIOLATION) violations"
done
