"""evaluate what a seeded-change sub-agent delivered: seed_eval.py <sid> <Cxx> [<Cyy> ...]
For each of patch.diff / patch_b.diff in /tmp/seed_<sid>: apply to the clean worktree /tmp/wt_<sid>, confirm
(demo exits 1 with the change and 0 without, the whole sarpy test suite passes apart from the two tests that already fail),
then run the quick checks of the given properties from a scratch copy of /verif against that worktree (never against /repo).
Writes /var/tmp/seedres/<sid><variant>.json and prints a summary."""
import json, os, re, shutil, subprocess, sys
sid, props = sys.argv[1], sys.argv[2:]
wt, sd = f'/tmp/wt_{sid}', f'/tmp/seed_{sid}'
os.makedirs('/var/tmp/seedres', exist_ok=True)
env = dict(os.environ, PYTHONDONTWRITEBYTECODE='1')
ALWAYS_FAIL = {'test_polygons', 'test_line_string'}


def sh(cmd, **kw):
    return subprocess.run(cmd, capture_output=True, text=True, **kw)


for variant in ('', '_b'):
    patch, demo = f'{sd}/patch{variant}.diff', f'{sd}/demo{variant}.py'
    if not (os.path.exists(patch) and os.path.exists(demo)):
        print(f'{sid}{variant}: not delivered'); continue
    res = {'sid': sid, 'variant': variant, 'props': props}
    sh(['git', '-C', wt, 'checkout', '--', '.']); sh(['git', '-C', wt, 'clean', '-fdq'])
    head = sh(['git', '-C', '/repo', 'rev-parse', 'HEAD']).stdout.strip()     # sarpy fixes committed meanwhile: evaluate against the current HEAD
    sh(['git', '-C', wt, 'checkout', '-q', '--detach', head])
    a = sh(['git', '-C', wt, 'apply', patch])
    if a.returncode:
        print(f'{sid}{variant}: patch does not apply: {a.stderr[:300]}'); continue
    r1 = sh(['/venv/bin/python', demo], cwd=wt, env=dict(env, PYTHONPATH=wt), timeout=1800)
    r0 = sh(['/venv/bin/python', demo], cwd='/tmp', env=dict(env, PYTHONPATH='/repo'), timeout=1800)
    rt = sh(['/venv/bin/python', '-m', 'pytest', '-q', '-p', 'no:cacheprovider', '--timeout=900'], cwd=wt, env=dict(env, PYTHONPATH=wt), timeout=3000)
    failed = set(re.findall(r'^FAILED \S+::(\w+)', rt.stdout, re.M))
    line = [l for l in rt.stdout.splitlines() if ' passed' in l][-1:]
    res.update(demo_with=r1.returncode, demo_without=r0.returncode, tests=line[0] if line else rt.stdout[-300:], extra_failed=sorted(failed - ALWAYS_FAIL))
    res['confirmed'] = r1.returncode == 1 and r0.returncode == 0 and bool(line) and not (failed - ALWAYS_FAIL)
    res['diffstat'] = sh(['git', '-C', wt, 'diff', '--stat']).stdout.strip().splitlines()[:-1]
    print(f"{sid}{variant}: demo with/without = {r1.returncode}/{r0.returncode}; tests: {res['tests']}; extra failures {res['extra_failed']}; confirmed={res['confirmed']}")
    if not res['confirmed']:
        print('   demo(with) tail:', r1.stdout[-300:].replace('\n', ' | '), r1.stderr[-300:].replace('\n', ' | '))
        print('   demo(without) tail:', r0.stdout[-200:].replace('\n', ' | '), r0.stderr[-300:].replace('\n', ' | '))
    else:
        S = f'/var/tmp/vseed_{sid}{variant}'
        shutil.rmtree(S, ignore_errors=True)
        sh(['rsync', '-a', '--exclude', 'replay', '--exclude', 'evidence', '--exclude', '.git', '/verif/', S + '/']); os.makedirs(S + '/evidence', exist_ok=True)
        res['checks'] = {}
        for p in props:
            c = sh([S + '/check', p, '--tier', 'quick'], env=dict(env, SARPY_REPO=wt, PYTHONPATH=wt), timeout=3000)
            out = c.stdout + c.stderr
            viol = [l for l in out.splitlines() if l.startswith('VIOLATION')]
            what = []
            for v in viol[:3]:
                m = re.search(r'replay=(\S+)', v)
                try:
                    d = json.load(open(m.group(1)))
                    what.append(str(d.get('what') or list(d.keys()))[:600])
                except Exception as e:
                    what.append(f'(replay unreadable: {e})')
            res['checks'][p] = {'rc': c.returncode, 'violations': viol[:5], 'what': what, 'tail': [l for l in out.splitlines() if l.startswith('[')][-1:]}
            print(f"   {p}: rc={c.returncode} violations={len(viol)} {'NFIF' if any('no-failing-input-found' in v for v in viol) else ''}")
            for w in what[:2]:
                print('      ', w[:400])
            if c.returncode not in (0, 1):
                print('      tail:', out[-600:].replace('\n', ' | '))
        shutil.rmtree(S, ignore_errors=True)
    json.dump(res, open(f'/var/tmp/seedres/{sid}{variant}.json', 'w'), indent=1)
sh(['git', '-C', wt, 'checkout', '--', '.'])
