#!/bin/bash
# re-apply one filed seeded change to a scratch worktree of /repo HEAD and run the given quick checks against it: seed_check.sh <seed id> <Cxx> ...
cd "$(dirname "$0")/.."
sid=$1; shift
wt=/tmp/wt_r$sid
git -C /repo worktree add --detach $wt HEAD -q 2>/dev/null
if git -C $wt apply $PWD/seeded/$sid/patch.diff; then tools/seed_try.sh r$sid "$@"; else echo "$sid: patch does not apply"; fi
git -C /repo worktree remove --force $wt
