"""Minimal repros of the TRE findings of notes/NOTES_TRE.md on the real code (python notes/tre_repro.py; sarpy importable)."""
import logging
logging.disable(logging.CRITICAL)
from sarpy.io.general.nitf_elements.base import TRE


def show(label, rec):
    t = TRE.from_bytes(rec + b'TRAILING', 0)
    out = t.to_bytes()
    print(f'{label}: record {len(rec)} bytes -> {type(t).__name__}: get_bytes_length() = {t.get_bytes_length()}, len(to_bytes()) = {len(out)}, '
          f'same bytes: {out == rec}')
    return t


# 1-3: from_bytes overrides dispatch on CEL to a variant whose layout has another length
show('ACFTA  CEL=199', b'ACFTA 00199' + b'1' * 199)
show('EXPLTA CEL=101', b'EXPLTA00101' + b'1' * 101)
show('MENSRA CEL=185', b'MENSRA00185' + b'1' * 185)

# 4: PLTFMA with P_TYPE = 'A': AC_POS_Z is added three times (9, 9, 8 bytes)
#    VERNUM 4, P_NAME 12, P_DESCR 40, P_DATE 8, P_TIME 9, P_TYPE 1, then the 'A' branch
body = b'0001' + b'NAME'.ljust(12) + b'DESCR'.ljust(40) + b'20200101' + b'120000.00' + b'A'
tail = [(15, b'TYPE'), (12, b'SERIAL'), (10, b'TNUM'), (5, b'1'), (5, b'2'), (3, b'3'), (1, b'R'), (9, b'X'), (9, b'Y'), (9, b'POSZ'),
        (9, b'VX'), (9, b'VY'), (9, b'VELZ'), (8, b'AX'), (8, b'AY'), (8, b'ACCZ'), (5, b'SPD'), (21, b'ENT'), (6, b'EA'), (21, b'EXIT'), (6, b'XA'),
        (5, b'N'), (5, b'E'), (5, b'D')]
body += b''.join(v.ljust(w) for w, v in tail)
t = show('PLTFMA P_TYPE=A', b'PLTFMA%05d' % len(body) + body)
print('   AC_POS_Z =', repr(t.DATA.AC_POS_Z), '(the bytes held POSZ, VELZ, ACCZ)')

# 5: non-ASCII UTF-8 text in an 's' field: padded to w characters, not w bytes
n = TRE.from_bytes(b'STREOB00000', 0).EL      # total width of the (fixed) STREOB layout; ST_ID is its first field, 60 bytes
body = ('é'.encode() + b'x' * 58) + b'1' * (n - 60)
show('STREOB non-ASCII ST_ID', b'STREOB%05d' % n + body)

# not violations of C13 (the record survives as UnknownTRE), but the TRE is never interpreted:
from sarpy.io.general.nitf_elements.tres.unclass.BANDSB import AUX_B, BAND
from sarpy.io.general.nitf_elements.tres.unclass.SENSRB import PARAMETER
for cls, args in ((PARAMETER, (b'12345678',)), (AUX_B, (b'I' + b'UNIT   ' + b'0000000001',)), (BAND, (b'0000000001',))):
    try:
        cls(*args)
        print(f'{cls.__name__}: constructed')
    except Exception as e:
        print(f'{cls.__name__}{args}: {type(e).__name__}: {e}')
