"""C18 findings: minimal reproduction on the unchanged tree.  Run: /venv/bin/python notes/c18_repro.py"""
import sys, os, logging, tempfile, shutil, atexit
sys.path.insert(0, os.path.join(os.path.dirname(os.path.abspath(__file__)), '..', 'harness'))
import numpy, sargen, cphdgen, c09, c18, random
from sarpy.consistency import sicd_consistency
from sarpy.consistency.cphd_consistency import CphdConsistency, read_header
d = tempfile.mkdtemp(dir='/var/tmp')
atexit.register(shutil.rmtree, d, True)
# (1) chips made by sarpy's own subset API are rejected
base = sargen.base_sicd('pfa')
print('full image valid:', base.is_valid(recursive=True))
logging.disable(logging.CRITICAL)
chip = base.create_subset_structure((700, 723), (850, 863))[0]
print('chip valid:', chip.is_valid(recursive=True))
# (2) NumRows disagreeing with the pixel data is accepted
base.ImageData.ValidData = None; base.GeoData.ValidData = None
chip = base.create_subset_structure((700, 723), (850, 863))[0]
buf, _ = sargen.write_sicd(chip, numpy.zeros((23, 13), 'complex64'), 'path', d)
p = os.path.join(d, 'a.nitf'); open(p, 'wb').write(buf)
print('written file accepted:', sicd_consistency.check_file(p))
open(p, 'wb').write(buf.replace(b'<NumRows>23</NumRows>', b'<NumRows>24</NumRows>', 1))
print('NumRows 24 with 23 rows of pixels accepted:', sicd_consistency.check_file(p))
# (3) required element removed -> exception instead of verdict
import re
m = re.search(rb'<SCPTime>.*?</SCPTime>', buf)
open(p, 'wb').write(buf[:m.start()] + b' ' * (m.end() - m.start()) + buf[m.end():])
try:
    print(sicd_consistency.check_file(p))
except Exception as e:
    print('SCPTime removed: raised', type(e).__name__, e)
# (4) CPHD: RELEASE_INFO removed from the header is not flagged; XML_BLOCK_SIZE + 64 and NumVectors + 1 raise
prod = c18.make_cphd(11, d)
q = os.path.join(d, 'a.cphd')
open(q, 'wb').write(c18.cphd_patch_header(prod['buf'], remove=('RELEASE_INFO',)))
print(open(q, 'rb').read(300).split(b'\f')[0].decode())
print('read_header keys:', sorted(read_header(open(q, 'rb'))))
cc = CphdConsistency.from_file(q); cc.check()
print('check_header_keys passed:', cc.all()['check_header_keys']['passed'])
for name in ('cphd_xml_size_plus64', 'cphd_numvectors_plus1'):
    m = [x for x in c18.CPHD_MUTATIONS if x['name'] == name][0]
    open(q, 'wb').write(m['apply'](prod, random.Random(0)))
    try:
        CphdConsistency.from_file(q).check()
    except Exception as e:
        print(name, 'raised', type(e).__name__, e)
