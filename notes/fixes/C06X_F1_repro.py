"""C06X finding F1 - SICD 1.0.0: a GeoInfo holding nested GeoInfo elements and a Point is written in an order that the
1.0.0 schema rejects (prints: input valid True / output valid False / ['Point', 'GeoInfo']).
Run: /venv/bin/python notes/fixes/C06X_F1_repro.py   (sarpy importable from /repo or $SARPY_REPO)"""
import glob
import logging
import os
import sys

sys.path.insert(0, os.environ.get('SARPY_REPO', '/repo'))
logging.getLogger('sarpy').addHandler(logging.NullHandler())
logging.getLogger('sarpy').setLevel(logging.CRITICAL)
from lxml import etree                                        # noqa: E402
from sarpy.io.complex.sicd_elements.SICD import SICDType      # noqa: E402
from sarpy.io.complex import sicd_schema                      # noqa: E402

urn = 'urn:SICD:1.0.0'
xsd = etree.XMLSchema(etree.parse(sicd_schema.urn_mapping[urn]['schema']))
src = os.path.join(os.environ.get('SARPY_REPO', '/repo'), 'tests', 'data', 'example.sicd.xml')
data = open(src, 'rb').read()
root = etree.fromstring(data)
data = data.replace(etree.QName(root).namespace.encode(), urn.encode())      # the shipped 1.x example, re-targeted to 1.0.0
root = etree.fromstring(data)


def Q(t):
    return '{%s}%s' % (urn, t)


geo = root.find(Q('GeoData'))
for g in geo.findall(Q('GeoInfo')):
    geo.remove(g)
gi = etree.SubElement(geo, Q('GeoInfo'))
gi.set('name', 'outer')
inner = etree.SubElement(gi, Q('GeoInfo'))                     # 1.0.0: Desc*, GeoInfo*, (Point | Line | Polygon)?
inner.set('name', 'inner')
pt = etree.SubElement(gi, Q('Point'))
etree.SubElement(pt, Q('Lat')).text = '1'
etree.SubElement(pt, Q('Lon')).text = '2'
doc = etree.fromstring(etree.tostring(root))
print('input valid :', xsd.validate(doc))
out = SICDType.from_xml_string(etree.tostring(doc)).to_xml_bytes(urn=urn)
odoc = etree.fromstring(out)
print('output valid:', xsd.validate(odoc), [e.message for e in list(xsd.error_log)[:1]])
print([etree.QName(c).localname for c in odoc.find(Q('GeoData')).findall(Q('GeoInfo'))[-1]])
