"""C06X finding F2 - CRSD: the blocks CRSD shares with CPHD answer version_required() in CPHD version numbers, so
CRSDType.version_required() names CRSD versions that do not exist (1.0.1 as soon as a SupportArray block is present; 1.1.0 with a
SupportArray/DwellTimeArray, a CPHD-1.1.0 addition).  CRSDWritingDetails(check_older_version=True) then writes the header version and the
XML namespace http://api.nsgreg.nga.mil/schema/crsd/1.0.1, for which no schema exists.
Run: /venv/bin/python notes/fixes/C06X_F2_repro.py"""
import logging
import os
import sys

sys.path.insert(0, os.environ.get('SARPY_REPO', '/repo'))
logging.getLogger('sarpy').addHandler(logging.NullHandler())
logging.getLogger('sarpy').setLevel(logging.CRITICAL)
from sarpy.io.received.crsd1_elements.CRSD import CRSDType                       # noqa: E402
from sarpy.io.phase_history.cphd1_elements.SupportArray import SupportArrayType  # noqa: E402  (CRSD uses the CPHD class)
from sarpy.io.received import crsd_schema                                        # noqa: E402

print('bundled / writable CRSD versions:', sorted(crsd_schema.urn_mapping), crsd_schema.WRITABLE_VERSIONS)
print('empty structure                 :', CRSDType().version_required())
meta = CRSDType(SupportArray=SupportArrayType())
req = meta.version_required()
print('structure with a SupportArray   :', req, '->', crsd_schema.get_namespace(req))
print('is that a CRSD version?         :', '{}.{}.{}'.format(*req) in crsd_schema.WRITABLE_VERSIONS)
