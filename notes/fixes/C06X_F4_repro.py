"""C06X finding F4 - SICD: version_required() ignores the transmit polarisations.  RadarCollection/TxPolarization = 'X' (also Y, S, E,
OTHER<text>) and TxSequence/TxStep/TxPolarization = 'UNKNOWN' are SICD 1.3.0 values; version_required() answers (1, 1, 0), so
get_des_details(check_older_version=True) / SICDWriter(check_older_version=True) write urn:SICD:1.1.0, whose schema rejects the value.
Run: /venv/bin/python notes/fixes/C06X_F4_repro.py   (prints: input valid True / selected urn:SICD:1.1.0 / output valid False)"""
import logging
import os
import sys

sys.path.insert(0, os.environ.get('SARPY_REPO', '/repo'))
logging.getLogger('sarpy').addHandler(logging.NullHandler())
logging.getLogger('sarpy').setLevel(logging.CRITICAL)
from lxml import etree                                        # noqa: E402
from sarpy.io.complex.sicd_elements.SICD import SICDType      # noqa: E402
from sarpy.io.complex import sicd_schema                      # noqa: E402

src = os.path.join(os.environ.get('SARPY_REPO', '/repo'), 'tests', 'data', 'example.sicd.xml')
data = open(src, 'rb').read()
root = etree.fromstring(data)
ns_in = etree.QName(root).namespace
data = data.replace(ns_in.encode(), b'urn:SICD:1.3.0')
root = etree.fromstring(data)
root.find('{urn:SICD:1.3.0}RadarCollection/{urn:SICD:1.3.0}TxPolarization').text = 'X'
xsd13 = etree.XMLSchema(etree.parse(sicd_schema.urn_mapping['urn:SICD:1.3.0']['schema']))
doc = etree.fromstring(etree.tostring(root))
print('input valid (1.3.0):', xsd13.validate(doc))
obj = SICDType.from_xml_string(etree.tostring(doc))
urn = obj.get_des_details(check_older_version=True)['DESSHTN']
print('version_required   :', obj.version_required(), '-> selected', urn)
out = etree.fromstring(obj.to_xml_bytes(urn=urn))
xsd = etree.XMLSchema(etree.parse(sicd_schema.urn_mapping[urn]['schema']))
print('output valid       :', xsd.validate(out), [e.message for e in list(xsd.error_log)[:1]])
