"""Repros of the six reported boundary behaviours (notes/NOTES_TRE4.md) on the real code: python notes/tre4_repro.py"""
import logging
logging.disable(logging.CRITICAL)
import numpy
from sarpy.io.general.nitf_elements import base as B
from sarpy.io.general.nitf_elements.image import ImageComments, ImageComment, ImageSegmentHeader, ImageBands, ImageBand


def rep(label, x):
    try:
        b = x.to_bytes()
        print(f'{label}: len(to_bytes()) = {len(b)}, get_bytes_length() = {x.get_bytes_length()}, head = {b[:12]!r}')
        return b
    except Exception as e:
        print(f'{label}: to_bytes raised {type(e).__name__}: {e}')


print('(1) UserHeaderType with TRE data of 99996..100000 bytes')
for n in (99996, 99997, 99999, 100000):
    try:
        uh = B.UserHeaderType(OFL=0, data=B.TREList(tres=[B.UnknownTRE('ABCDEF', b'x' * (n - 11))]))
        rep(f'    data {n} bytes', uh)
    except Exception as e:
        print(f'    data {n} bytes: refused {type(e).__name__}: {str(e)[:80]}')

print('(2) UnknownTRE payload 99999 / 100000')
for n in (99999, 100000):
    try:
        t = B.UnknownTRE('ABCDEF', b'x' * n)
        b = rep(f'    payload {n}', t)
        back = B.UnknownTRE.from_bytes(b, 0)
        print('       decoded payload length', len(back.DATA))
    except Exception as e:
        print(f'    payload {n}: {type(e).__name__}: {str(e)[:80]}')

print('(3) ImageComments with 9 / 10 comments')
for n in (9, 10):
    try:
        rep(f'    {n} comments', ImageComments(values=[ImageComment(COMMENT='c') for _ in range(n)]))
    except Exception as e:
        print(f'    {n} comments: refused {type(e).__name__}: {str(e)[:80]}')

print('(4) SymbolSegmentHeader.NELUT')
from sarpy.io.general.nitf_elements.symbol import SymbolSegmentHeader
for n in (1, 4, 40, 400):
    try:
        s = SymbolSegmentHeader(SY='SY', ENCRYP='0', STYPE='B', DLUT=numpy.zeros((n, 3), dtype='uint8'))
        print(f'    DLUT {n}x3: NELUT = {s.NELUT}, bytes of NELUT = {s._get_attribute_bytes("NELUT")!r}, accounted {s._get_attribute_length("NELUT")}')
        rep('      ', s)
    except Exception as e:
        print(f'    DLUT {n}x3: {type(e).__name__}: {str(e)[:100]}')

print('(5) _parse_str strips before truncating')
h = ImageSegmentHeader(PVTYPE='INT', IREP='MONO', ICAT='SAR', ABPP=8, NBPP=8, IMODE='B', Bands=ImageBands(values=[ImageBand()]))
h.IID1 = 'ABCDEFGH  XYZ'
print(f'    IID1 stored {h.IID1!r}; rendered {h._get_attribute_bytes("IID1")!r}; decoded {ImageSegmentHeader.from_bytes(h.to_bytes(), 0).IID1!r}')

print('(6) refused assignment of unparsable bytes to a UserHeaderType')
uh = B.UserHeaderType(OFL=0, data=B.TREList(tres=[B.UnknownTRE('ABCDEF', b'12345')]))
before = uh.to_bytes()
try:
    uh.data = b'garbage-that-is-no-TRE'
    print('    accepted')
except Exception as e:
    print(f'    refused: {type(e).__name__}: {str(e)[:80]}')
try:
    after = uh.to_bytes()
    print(f'    before {before!r}\n    after  {after!r}\n    unchanged: {after == before}; get_bytes_length() = {uh.get_bytes_length()}')
except Exception as e:
    print(f'    to_bytes after the refusal raised {type(e).__name__}: {e}')
